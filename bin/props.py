"""Per-property stage lists for bin/check.

Every run function receives (ctx, E) where E is the bin/check module
(run_tlc, tlc_ok, run_driver, read_verdict_file, Machinery ...).
"""
import json, os


def T(ctx, q, t):
    return t if ctx.tier == "thorough" else q


# ------------------------------------------------------------------ generic stages
def stage_mc_replay(ctx, E, name, module, cfg, prop=None, workers=16, timeout=3000, heap=None, extra_env=None,
                    extra=None, cold=0):
    """MC stage that emits cases + S->I replay of all emitted cases."""
    prop = prop or ctx.pid
    cases = os.path.join(ctx.work, "cases_%s.ndjson" % name)
    if os.path.exists(cases):
        os.remove(cases)
    env = {"OUTFILE": cases}
    env.update(extra_env or {})
    res = E.run_tlc(ctx.work, name, module, cfg, env=env, workers=workers, timeout=timeout, heap=heap, extra=extra)
    E.tlc_ok(res, name)
    ctx.add_tlc(res)
    if not os.path.exists(cases):
        raise E.Machinery("MC stage %s emitted no cases" % name)
    summ_path = os.path.join(ctx.work, "replay_%s.json" % name)
    E.run_driver(ctx.drv, ["replay", prop, cases, summ_path], timeout=timeout)
    with open(summ_path) as f:
        summ = json.load(f)
    if summ["total"] == 0:
        raise E.Machinery("replay %s saw no cases" % name)
    E.log("%s: TLC %d distinct states, %d cases replayed, ok=%d bad=%d dev=%s (%.0fs TLC)" % (
        name, res["distinct"], summ["total"], summ["ok"], summ["nbad"],
        {k: v["n"] for k, v in summ["dev"].items()}, res["wall"]))
    ctx.absorb_summary("S->I " + name, summ)
    if cold:
        # cold starts: `cold` fresh processes, each releasing 48 goroutines together on 48 of these cases as the very
        # first calls into the library (lazily built tables, once-only initialisation, first-use caches)
        tot = {"total": 0, "ok": 0, "nbad": 0, "nontrivial": 0, "dev": {}, "bad": [], "samples": []}
        for k in range(cold):
            cp = os.path.join(ctx.work, "cold_%s.json" % name)
            E.run_driver(ctx.drv, ["cold", prop, cases, cp, str(k + int(ctx.seed) * 7)], timeout=600)
            with open(cp) as f:
                cs = json.load(f)
            for key in ("total", "ok", "nbad", "nontrivial"):
                tot[key] += cs.get(key, 0)
            for d, v in (cs.get("dev") or {}).items():
                cur = tot["dev"].setdefault(d, {"n": 0, "first": v.get("first")})
                cur["n"] += v["n"]
            tot["bad"] += (cs.get("bad") or [])[:5]
            os.remove(cp)
        tot["x_processes"] = cold
        tot["bad"] = tot["bad"][:20]
        E.log("%s cold starts: %d processes, %d first calls made concurrently, bad=%d" % (name, cold, tot["total"], tot["nbad"]))
        ctx.absorb_summary("S->I " + name + " (cold starts, concurrent first calls)", tot)
    os.remove(cases)
    return res, summ


def stage_mc_only(ctx, E, name, module, cfg, workers=16, timeout=3000, extra=None, env=None, heap=None):
    """Spec-level model checking (design theorems / temporal properties); no emission."""
    res = E.run_tlc(ctx.work, name, module, cfg, workers=workers, timeout=timeout, extra=extra, env=env, heap=heap)
    E.tlc_ok(res, name)
    ctx.add_tlc(res)
    E.log("%s: TLC %d distinct states (%.0fs)" % (name, res["distinct"], res["wall"]))
    ctx.stage_info.append({"stage": "MC " + name, "states": res["distinct"], "transitions": res["generated"]})
    return res


def coverage_gate(ctx, E, module, cfg, expect_zero=(), workers=8, timeout=1500):
    """Vacuity gate (thorough tier): TLC -coverage 1 on a bounded configuration of a state-machine spec; every named
    action of Next must have been taken, except those listed as disabled by the configuration's constants. An action
    that is never taken means the properties were not exercised on it: that is a fault of the specification (exit 2)."""
    if ctx.tier != "thorough":
        return
    res = E.run_tlc(ctx.work, "cov_" + module, module, cfg, workers=workers, timeout=timeout, extra=["-coverage", "1"],
                    env={"OUTFILE": os.path.join(ctx.work, "cov_%s.ndjson" % module)})
    E.tlc_ok(res, "cov_" + module)
    import re
    last = {}
    for l in res["out"].splitlines():
        m = re.match(r"^<(\w+) line \d+, col \d+ to line \d+, col \d+ of module (\w+)>: (\d+):(\d+)\s*$", l)
        if m:
            last[m.group(1)] = (int(m.group(3)), int(m.group(4)))
    zero = sorted(a for a, (d, g) in last.items() if g == 0 and a not in expect_zero)
    ctx.stage_info.append({"stage": "coverage " + module + " / " + cfg, "actions": {a: g for a, (d, g) in last.items()},
                           "never_taken_by_configuration": sorted(a for a in last if last[a][1] == 0 and a in expect_zero)})
    try:
        os.remove(os.path.join(ctx.work, "cov_%s.ndjson" % module))
    except OSError:
        pass
    if not last:
        raise E.Machinery("coverage gate: no action statistics in TLC's output for %s" % module)
    if zero:
        raise E.Machinery("coverage gate: action(s) %s of %s are never taken in %s (vacuous model)" % (zero, module, cfg))
    E.log("coverage %s: %d actions, all taken%s" % (module, len(last), (" except " + ", ".join(sorted(expect_zero)) + " (disabled by the constants)") if expect_zero else ""))


def stage_record_trace(ctx, E, name, module, cfg, prop=None, drv=None, timeout=3000, rec_args=None, env=None,
                       heap=None, chunk=None, merge=False, optional=False):
    """I->S: record events from the real code, validate them with the *_Trace spec."""
    prop = prop or ctx.pid
    trace = os.path.join(ctx.work, "trace_%s.ndjson" % name)
    out = E.run_driver(drv or ctx.drv, ["record", prop, rec_args or ctx.tier, ctx.seed, trace], timeout=timeout,
                       env=env)
    n_events = json.loads(out.strip().splitlines()[-1])["events"]
    if n_events == 0:
        if optional:
            E.log("%s: nothing recorded (this implementation does not call the verif hooks): stage skipped" % name)
            ctx.stage_info.append({"stage": "I->S " + name, "skipped": "no verif hook events in this build"})
            return None, None
        raise E.Machinery("recorder %s produced no events" % name)
    return validate_trace(ctx, E, name, module, cfg, trace, n_events, timeout=timeout, heap=heap, merge=merge)


def validate_trace(ctx, E, name, module, cfg, trace, n_events, timeout=3000, heap=None, merge=False):
    verdicts = os.path.join(ctx.work, "verdicts_%s.ndjson" % name)
    if os.path.exists(verdicts):
        os.remove(verdicts)
    res = E.run_tlc(ctx.work, "trace_" + name, module, cfg, env={"TRACEFILE": trace, "VERDICTFILE": verdicts},
                    workers=1, timeout=timeout, heap=heap)
    E.tlc_ok(res, "trace_" + name)
    ctx.add_tlc(res)
    summ = E.read_verdict_file(verdicts, merge=merge)
    if summ["total"] != n_events:
        raise E.Machinery("trace spec %s judged %d of %d events" % (name, summ["total"], n_events))
    # samples: first events of the trace
    samples = []
    with open(trace) as f:
        for i, line in enumerate(f):
            if i >= 2:
                break
            samples.append(json.loads(line) if len(line) < 800 else line[:800] + "...<clipped>")
    summ["samples"] = samples
    summ["nontrivial"] = summ["total"]
    E.log("%s: %d events recorded from the real code, TLC judged ok=%d bad=%d dev=%s (%.0fs)" % (
        name, n_events, summ["ok"], summ["nbad"], {k: v["n"] for k, v in summ["dev"].items()}, res["wall"]))
    # attach the offending trace line to each bad verdict
    if summ["bad"] or summ["dev"]:
        want = {b["case"]["l"] for b in summ["bad"]} | {v["first"]["l"] for v in summ["dev"].values()}
        lines = {}
        with open(trace) as f:
            for i, line in enumerate(f, 1):
                if i in want:
                    lines[i] = line[:3000]
        for b in summ["bad"]:
            b["event"] = lines.get(b["case"]["l"])
        for v in summ["dev"].values():
            v["first"] = {"verdict": v["first"], "event": lines.get(v["first"]["l"])}
    ctx.absorb_summary("I->S " + name, summ)
    if os.environ.get("VERIF_BINDING") and not summ["bad"]:
        binding_selftest(ctx, E, name, module, cfg, trace, n_events, timeout, heap, merge=merge)
    os.remove(trace)
    return res, summ


def _corrupt(v, rnd):
    """Change one leaf of a JSON value (string: one letter changed / appended, bool: flipped, int: +1)."""
    if isinstance(v, dict) and v:
        keys = sorted(v)
        rnd.shuffle(keys)
        for k in keys:
            c, ok = _corrupt(v[k], rnd)
            if ok:
                v[k] = c
                return v, True
        return v, False
    if isinstance(v, list) and v:
        idx = list(range(len(v)))
        rnd.shuffle(idx)
        for i in idx:
            c, ok = _corrupt(v[i], rnd)
            if ok:
                v[i] = c
                return v, True
        return v, False
    if isinstance(v, bool):
        return (not v), True
    if isinstance(v, int):
        return v + 1, True
    if isinstance(v, str) and v:
        i = rnd.randrange(len(v))
        repl = "A" if v[i] != "A" else "C"
        return v[:i] + repl + v[i + 1:], True
    return v, False


# the fields of each trace's events that carry what the REAL CODE did (the rest describes the input or is
# informational): the binding self-test corrupts one of these
OBSERVED = {
    "C01_Trace": ["records"], "C02_Trace": ["viaparser", "viarecord", "viastruct", "printed", "printed2"],
    "C03_Trace": ["lines", "reparsed", "deterministic", "locsok", "panic"],
    "C04_Trace": ["ha", "hb", "err", "h", "canon"], "C06_Trace": ["p", "splits"], "C07_Trace": ["res", "dna"],
    "C10_Trace": ["frags"], "C11_Trace": ["rc", "comp", "rev", "pal", "rcrc", "rca", "rcb", "rcab", "vars", "varsrc"],
    "C12_Trace": ["o", "idx"], "C13_Trace": ["got", "closes", "panic"], "C14_Trace": ["lines", "parsed", "panic"],
    "C15_Trace": ["json", "back", "seqsafter", "same"], "C16_Trace": ["parsed", "exported"],
    "C17_Trace": ["s", "list"], "C18_Trace": ["err", "add", "comp", "compba", "dna"],
    "C19_Trace": ["dh10", "ds3", "tmc", "md", "mdok", "defok", "caseok", "tmu"],
    "C20_Trace": ["got", "errors", "closede", "closedr", "timeout"],
}


def binding_selftest(ctx, E, name, module, cfg, trace, n_events, timeout, heap, merge=False):
    """Binding self-test (VERIF_BINDING=1): corrupt one recorded field in each of up to 12 events of a trace that
    was accepted, re-run the trace spec and count how many corrupted events it now rejects. The result goes into
    the evidence only (a corruption of an informational field may legitimately be accepted)."""
    import random
    rnd = random.Random(ctx.seed * 7919 + len(name))
    lines = open(trace).read().splitlines()
    picks = sorted(rnd.sample(range(len(lines)), min(12, len(lines))))
    done = []
    for i in picks:
        if len(lines[i]) > 200000:
            continue
        ev = json.loads(lines[i])
        keys = [k for k in OBSERVED.get(module, []) if isinstance(ev, dict) and k in ev]
        rnd.shuffle(keys)
        ok = False
        for k in keys:
            c, ok = _corrupt(ev[k], rnd)
            if ok:
                ev[k] = c
                break
        ev2 = ev
        if not ok:
            ev2, ok = _corrupt(ev, rnd)
        if ok:
            lines[i] = json.dumps(ev2)
            done.append(i + 1)
    ctrace = trace + ".corrupt"
    open(ctrace, "w").write("\n".join(lines) + "\n")
    verdicts = os.path.join(ctx.work, "verdicts_%s_corrupt.ndjson" % name)
    res = E.run_tlc(ctx.work, "bind_" + name, module, cfg, env={"TRACEFILE": ctrace, "VERDICTFILE": verdicts},
                    workers=1, timeout=timeout, heap=heap)
    rejected = 0
    if res["rc"] == 0 and os.path.exists(verdicts):
        bad_lines = set()
        if merge:
            # the trace spec infers unlogged state: a corrupted event is rejected if, merged over the branches, it or a
            # later event of the same run is rejected
            summ = E.read_verdict_file(verdicts, merge=True)
            allbad = set()
            per_l = {}
            for l in open(verdicts):
                v = json.loads(l)
                v = json.loads(v) if isinstance(v, str) else v
                per_l.setdefault(v["l"], set()).add(v["v"])
            allbad = {l for l, vs in per_l.items() if "ok" not in vs and "bad" in vs}
            for i in done:
                j = i
                while j <= len(lines):
                    if j in allbad:
                        bad_lines.add(i)
                        break
                    j += 1
                    if j <= len(lines) and '"ev": "begin"' in lines[j - 1].replace('":"', '": "'):
                        break
        else:
            for l in open(verdicts):
                v = json.loads(l)
                v = json.loads(v) if isinstance(v, str) else v
                if v["v"] != "ok":
                    bad_lines.add(v["l"])
        rejected = len(bad_lines & set(done))
    else:
        rejected = len(done)  # TLC itself refused the corrupted trace (type error in a corrupted field)
    os.remove(ctrace)
    ctx.stage_info.append({"stage": "binding self-test " + name, "events_corrupted": len(done), "rejected_by_trace_spec": rejected})
    E.log("binding self-test %s: %d of %d corrupted events rejected by the trace spec" % (name, rejected, len(done)))


# ------------------------------------------------------------------ C12
def run_C12(ctx, E):
    ctx.exhaustive = True
    # design level: Booth's algorithm (the algorithm poly chose) as a state machine against the declarative definition
    stage_mc_only(ctx, E, "booth", "Booth_MC", "Booth_MC_%s.cfg" % ctx.tier)
    coverage_gate(ctx, E, "Booth_MC", "Booth_MC_quick.cfg")
    for suffix in ("", "3", "4"):
        stage_mc_replay(ctx, E, "mc%s" % (suffix or "2"), "C12_MC", "C12_MC_%s%s.cfg" % (ctx.tier, suffix), cold=8 if ctx.tier == "quick" else 40)
    drv = ctx.drv
    if ctx.tier == "thorough":   # the rotations of a group are canonicalised concurrently: under the race detector
        drv = E.build_driver(ctx.work, race=True)
    stage_record_trace(ctx, E, "rot", "C12_Trace", "C12_Trace.cfg", heap="8g", drv=drv,
                       env={"GORACE": "exitcode=66 halt_on_error=1"})


# ------------------------------------------------------------------ C11
def run_C11(ctx, E):
    ctx.exhaustive = True
    stage_mc_replay(ctx, E, "upper", "C11_MC", "C11_MC_%s.cfg" % ctx.tier, cold=200 if ctx.tier == "quick" else 600)
    stage_mc_replay(ctx, E, "mixedU", "C11_MC", "C11_MC_%s_mixed.cfg" % ctx.tier)
    stage_record_trace(ctx, E, "calls", "C11_Trace", "C11_Trace.cfg", heap="8g")


# ------------------------------------------------------------------ C04 / C05
def run_C04(ctx, E):
    ctx.exhaustive = True
    for m in ("dna", "rna", "iupac", "nucfull"):
        stage_mc_replay(ctx, E, m, "C04_MC", "C04_MC_%s_%s.cfg" % (ctx.tier, m), cold=8 if ctx.tier == "quick" else 40)
    drv = ctx.drv
    if ctx.tier == "thorough":   # overlapping calls of a pure function: under the race detector
        drv = E.build_driver(ctx.work, race=True)
    stage_record_trace(ctx, E, "meta", "C04_Trace", "C04_Trace.cfg", heap="8g", drv=drv,
                       env={"GORACE": "exitcode=66 halt_on_error=1"})


def run_C05(ctx, E):
    ctx.exhaustive = True
    # "dnau": DNA spelled with U, double-stranded too (value clause only: tag and digest of the canonical representative)
    for m in ("dna", "rna", "iupac", "nucfull", "dnau", "protein", "invalid"):
        stage_mc_replay(ctx, E, m, "C04_MC", "C04_MC_%s_%s.cfg" % (ctx.tier, m), cold=8 if ctx.tier == "quick" else 40)
    stage_record_trace(ctx, E, "sep", "C04_Trace", "C04_Trace.cfg", heap="8g")


def run_C06(ctx, E):
    ctx.exhaustive = True
    stage_mc_replay(ctx, E, "cells", "C06_MC", "C06_MC_cells.cfg", cold=8 if ctx.tier == "quick" else 40)
    stage_mc_replay(ctx, E, "hom", "C06_MC", "C06_MC_hom_%s.cfg" % ctx.tier)
    stage_record_trace(ctx, E, "tr", "C06_Trace", "C06_Trace.cfg", heap="8g")


def stage_expect_violation(ctx, E, name, module, cfg, what, workers=16, timeout=1200):
    """Design-level lead: TLC is EXPECTED to find an invariant violation on the as-built model.
    It is informational (a lead, never a verdict): verdicts come from the replayed real code."""
    res = E.run_tlc(ctx.work, name, module, cfg, workers=workers, timeout=timeout)
    ctx.add_tlc(res)
    found = res["rc"] in (12, 13) and ("is violated" in res["out"] or "was violated" in res["out"])
    ctx.stage_info.append({"stage": "MC-as-built " + name, "expected_violation": what, "tlc_found_it": found,
                           "states": res["distinct"]})
    E.log("%s: as-built model %s %s (design-level lead)" % (name, "VIOLATES" if found else "satisfies", what))
    return found


def run_C08(ctx, E):
    stage_mc_only(ctx, E, "repaired", "C08_MC", "C08_MC_repaired.cfg")
    stage_expect_violation(ctx, E, "asbuilt_pristine", "C08_MC", "C08_MC_asbuilt_pristine.cfg", "Pristine")
    stage_expect_violation(ctx, E, "asbuilt_indep", "C08_MC", "C08_MC_asbuilt_indep.cfg", "Independence")
    stage_mc_only(ctx, E, "conc", "C08_Conc", "C08_Conc.cfg")
    stage_expect_violation(ctx, E, "conc_shared", "C08_Conc", "C08_Conc_shared.cfg",
                           "RaceFree (hypothetical layout in which tables 1 and 11 share their cells)")
    stage_mc_replay(ctx, E, "session", "C08_MC", "C08_MC_%s.cfg" % ctx.tier, heap="24g")
    drv = ctx.drv
    if ctx.tier == "thorough" or os.environ.get("VERIF_FORCE_RACE"):
        drv = E.build_driver(ctx.work, race=True)   # concurrent re-weighting under the race detector
    stage_record_trace(ctx, E, "hist", "C08_Trace", "C08_Trace.cfg", heap="16g", drv=drv,
                       env={"GORACE": "exitcode=66 halt_on_error=1"})


def run_C07(ctx, E):
    os.environ["VERIF_TIER_INTERNAL"] = ctx.tier
    stage_mc_replay(ctx, E, "eligible", "C07_MC", "C07_MC_%s.cfg" % ctx.tier, cold=8 if ctx.tier == "quick" else 40)
    # histories: one live table re-weighted in place and optimised in between (what Optimize emits depends on the current weights only)
    stage_mc_replay(ctx, E, "session", "C07_Session", "C07_Session_%s.cfg" % ctx.tier, prop="C07S")
    coverage_gate(ctx, E, "C07_Session", "C07_Session_quick.cfg")
    stage_record_trace(ctx, E, "opt", "C07_Trace", "C07_Trace.cfg", heap="8g")
    # the specification beyond the listed properties: GetCodingRegions, random.ProteinSequence, codon-table JSON files
    # (advisory: these calls are not part of property C07, so a mismatch is reported as a NOTE, never as a C07 violation)
    nbad = len(ctx.bad)
    stage_record_trace(ctx, E, "extras", "Extras_Trace", "Extras_Trace.cfg", prop="EXTRAS", heap="8g",
                       env={"POLY_CLI": E.build_cli(ctx.work)})
    seen = set()
    for b in ctx.bad[nbad:]:
        if b["detail"] not in seen:
            seen.add(b["detail"])
            print("NOTE: behaviour outside the listed properties differs from the specification (Extras_Trace): %s" % b["detail"][:300])
    ctx.stage_info.append({"stage": "extras (advisory)", "mismatches": len(ctx.bad) - nbad})
    del ctx.bad[nbad:]


def run_C09(ctx, E):
    os.environ["C09_TMP"] = ctx.work
    os.environ["C09_REPS"] = str(T(ctx, 2, 7))
    os.environ["VERIF_SEED"] = str(ctx.seed)
    evfile = os.path.join(ctx.work, "c09_events.ndjson")
    os.environ["C09_EVENTS_OUT"] = evfile
    # design level: every interleaving of goroutines / channel / WaitGroup / collector
    stage_mc_only(ctx, E, "conc", "LigationConc", "LigationConc_%s.cfg" % ctx.tier, timeout=1500)
    coverage_gate(ctx, E, "LigationConc", "LigationConc_quick.cfg", expect_zero=("CollTake",))
    if ctx.tier == "thorough":
        # design alternative named in the code's own comment: a buffered construct channel (capacity 2) keeps every property
        stage_mc_only(ctx, E, "conc_buffered", "LigationConc", "LigationConc_buffered.cfg", timeout=1500)
        stage_expect_violation(ctx, E, "conc_asbuilt", "LigationConc", "LigationConc_asbuilt.cfg",
                               "Termination (code before fix KF-C09-1: no per-chain junction memory)")
        # the race detector on the real runs
        ctx.drv_race = E.build_driver(ctx.work, race=True)
        os.environ["POLYDRV_CHILD"] = ctx.drv_race
        os.environ["POLYDRV_NO_RLIMIT"] = "1"
        os.environ["C09_DEADLINE_MS"] = "20000"
    # functional: every abstract pool -> DNA parts -> clone.GoldenGate at GOMAXPROCS 1, 2, 16 with seeded yields
    stage_mc_replay(ctx, E, "pools", "C09_MC", "C09_MC_%s.cfg" % ctx.tier, timeout=3000)
    # designed assemblies: 1..3 (4, and 6 with one fragment per slot) junctions, libraries, decoys, flipped parts
    stage_mc_replay(ctx, E, "designed", "C09_Designed", "C09_Designed_%s.cfg" % ctx.tier, timeout=3000, workers=1)
    if ctx.tier == "thorough":
        stage_mc_replay(ctx, E, "designed6", "C09_Designed", "C09_Designed_thorough6.cfg", timeout=3000, workers=1)
    else:
        # rings of 4 and 5 junctions, one fragment per slot (the overhang alphabets of the harness take turns)
        stage_mc_replay(ctx, E, "designed5", "C09_Designed", "C09_Designed_quick5.cfg", timeout=3000, workers=1)
    if ctx.tier == "thorough":
        os.environ.pop("POLYDRV_CHILD", None)
        os.environ.pop("POLYDRV_NO_RLIMIT", None)
        os.environ["C09_REPS"] = "2"
        os.environ["C09_DEADLINE_MS"] = "4000"
        stage_mc_replay(ctx, E, "pools4", "C09_MC", "C09_MC_thorough4.cfg", timeout=3000)
    # I->S: the synchronisation events of those runs, validated by C09_Trace
    trace = os.path.join(ctx.work, "trace_sync.ndjson")
    n = 0
    runs = 0
    with open(evfile) as f, open(trace, "w") as w:
        for line in f:
            r = json.loads(line)
            runs += 1
            w.write(json.dumps({"ev": "begin", "a": "", "b": ""}) + "\n")
            for e in r["events"]:
                w.write(json.dumps({"ev": e["ev"], "a": e["a"], "b": e["b"]}) + "\n")
            w.write(json.dumps({"ev": "return", "a": "", "b": "", "result": r.get("result") or []}) + "\n")
            n += len(r["events"]) + 2
    # S->I directed schedules: random behaviours of LigationConc (TLC -simulate), stepped through the real goroutines
    # with the hooks as gates
    nsim = T(ctx, 1500, 40000)
    _, summ = stage_mc_replay(ctx, E, "sched", "C09_Sched", "C09_Sched_%s.cfg" % ctx.tier, prop="C09D", workers=1,
                              extra=["-simulate", "num=%d" % nsim, "-depth", "400", "-seed", str(ctx.seed)])
    E.log("sched: %d of %d behaviours followed step by step by the real goroutines (the rest judged on the outcome only)"
          % (summ.get("nontrivial", 0), summ["total"]))
    ctx.stage_info[-1]["schedules_followed_step_by_step"] = summ.get("nontrivial", 0)
    if ctx.tier == "thorough":   # every pool of <= 2 fragments over 2 junction symbols and their complements
        _, summ = stage_mc_replay(ctx, E, "sched2", "C09_Sched", "C09_Sched_thorough2.cfg", prop="C09D", workers=1,
                                  extra=["-simulate", "num=%d" % nsim, "-depth", "400", "-seed", str(ctx.seed + 1)])
        ctx.stage_info[-1]["schedules_followed_step_by_step"] = summ.get("nontrivial", 0)
    # I->S at the level of the ACTIONS of LigationConc: free runs of clone.CircularLigate on random small pools, each of
    # which must be a behaviour of the specification (TLC infers the goroutine of every event)
    nbad = len(ctx.bad)
    try:
        stage_record_trace(ctx, E, "actions", "LigationConc_Trace", "LigationConc_Trace.cfg", prop="C09A", heap="8g",
                           merge=True, optional=True, timeout=600)
    except E.Machinery as ex:
        # this stage is advisory (see below): if the inference does not finish it is reported, it does not take the
        # verdict of the other stages with it
        print("NOTE: the action-level conformance stage did not complete: %s" % str(ex).splitlines()[0][:200])
        ctx.stage_info.append({"stage": "I->S actions (conformance)", "skipped": "did not complete: " + str(ex).splitlines()[0][:200]})
    # Verdict policy: the property speaks about results and termination, not about how the goroutines are organised.
    # A run that is not a behaviour of LigationConc although its result is right (say, candidates tried in another
    # order) is reported as a NOTE - the design-level model checking then no longer speaks for this code - and only a
    # property clause evaluated on the run (ResultIsRings, no return) is a violation.
    hard = [b for b in ctx.bad[nbad:] if "ResultIsRings" in b["detail"] or "did not return" in b["detail"]]
    soft = [b for b in ctx.bad[nbad:] if b not in hard]
    for b in soft[:5]:
        print("NOTE: a recorded run of clone.CircularLigate is not a behaviour of LigationConc.tla: %s" % b["detail"][:300])
    if soft:
        ctx.stage_info.append({"stage": "I->S actions (conformance)", "runs_not_explained_by_the_model": len(soft),
                               "note": "advisory: the design-level results of LigationConc no longer describe this code"})
    ctx.bad[nbad:] = hard
    if n == 0:
        # the hooks are optional: an implementation without goroutines (or without the verif hook calls) has no
        # synchronisation events to validate; the API-level results were all checked above
        E.log("sync: no synchronisation events recorded (hooks not called by this implementation): stage skipped")
        ctx.stage_info.append({"stage": "I->S sync", "skipped": "no verif hook events in this build"})
    else:
        validate_trace(ctx, E, "sync", "C09_Trace", "C09_Trace.cfg", trace, n, heap="8g")
        ctx.stage_info.append({"stage": "I->S sync", "runs_with_events": runs})


def run_C13(ctx, E):
    stage_mc_replay(ctx, E, "stream", "C13_MC", "C13_MC_%s.cfg" % ctx.tier)
    coverage_gate(ctx, E, "C13_MC", "C13_MC_quick.cfg")
    # directed schedules: every interleaving of reader hand-outs and consumer receives, driven through the real parser
    _, summ = stage_mc_replay(ctx, E, "sched", "C13_Sched", "C13_Sched_%s.cfg" % ctx.tier, prop="C13D")
    E.log("sched: %d of %d schedules followed step by step by the real parser (the rest judged on the outcome only)"
          % (summ.get("nontrivial", 0), summ["total"]))
    ctx.stage_info[-1]["schedules_followed_step_by_step"] = summ.get("nontrivial", 0)
    drv = ctx.drv
    if ctx.tier == "thorough":
        drv = E.build_driver(ctx.work, race=True)
    stage_record_trace(ctx, E, "io", "C13_Trace", "C13_Trace.cfg", drv=drv, heap="16g", env={"GORACE": "exitcode=66 halt_on_error=1"})


def run_C20(ctx, E):
    stage_mc_replay(ctx, E, "stream", "UniprotStream", "UniprotStream_%s.cfg" % ctx.tier)
    coverage_gate(ctx, E, "UniprotStream", "UniprotStream_quick.cfg", expect_zero=("SendErrPartial",))
    stage_expect_violation(ctx, E, "breakonly", "UniprotStream", "UniprotStream_breakonly.cfg",
                           "Termination (design alternative 'report the error, break, close both': deadlocks an "
                           "unbuffered error channel under the documented consumer)")
    stage_expect_violation(ctx, E, "asbuilt", "UniprotStream", "UniprotStream_asbuilt.cfg",
                           "Termination (code before fix KF-C20-1: same error for ever)")
    # directed schedules: every interleaving of reader hand-outs and consumer receives, driven through the real parser
    _, summ = stage_mc_replay(ctx, E, "sched", "C20_Sched", "C20_Sched_%s.cfg" % ctx.tier, prop="C20D")
    E.log("sched: %d of %d schedules followed step by step by the real parser (the rest judged on the outcome only)"
          % (summ.get("nontrivial", 0), summ["total"]))
    ctx.stage_info[-1]["schedules_followed_step_by_step"] = summ.get("nontrivial", 0)
    if os.environ.get("C20_SKIP_TRACE") is None: stage_record_trace(ctx, E, "offsets", "C20_Trace", "C20_Trace.cfg", heap="8g")


def run_C17(ctx, E):
    # MC: the selection loop as a state machine over every small input; its initial states are the S->I inputs
    cases = os.path.join(ctx.work, "c17_inputs.ndjson")
    for name in (("quick",) if ctx.tier == "quick" else ("thorough", "thorough2")):
        res = E.run_tlc(ctx.work, "mc_" + name, "C17_MC", "C17_MC_%s.cfg" % name, env={"OUTFILE": cases}, timeout=2400)
        E.tlc_ok(res, "mc_" + name)
        ctx.add_tlc(res)
        E.log("mc_%s: TLC %d distinct states (%.0fs)" % (name, res["distinct"], res["wall"]))
    stage_expect_violation(ctx, E, "asbuilt", "C17_MC", "C17_MC_asbuilt.cfg",
                           "PropertyHolds (loop before fix KF-C17-1: each ban / filter checked once, in order)")
    # the real function is run on every enumerated input (+ random / adversarial ones); TLC judges its real output
    stage_record_trace(ctx, E, "barcodes", "C17_Trace", "C17_Trace.cfg", heap="24g", env={"C17_CASES": cases}, timeout=3000)
    # orders 9..11 of the De Bruijn sequence: counted by the harness only (not spec-decided)
    big = os.path.join(ctx.work, "c17_big.ndjson")
    with open(big, "w") as f:
        f.write(json.dumps({"maxN": T(ctx, 9, 11)}) + "\n")
    summ_path = os.path.join(ctx.work, "c17_big.json")
    E.run_driver(ctx.drv, ["replay", "C17", big, summ_path])
    summ = json.load(open(summ_path))
    ctx.absorb_summary("harness-side De Bruijn orders 9..%d (not spec-decided)" % T(ctx, 9, 11), summ)


def run_C19(ctx, E):
    ctx.exhaustive = True
    stage_mc_replay(ctx, E, "grid", "C19_MC", "C19_MC_%s.cfg" % ctx.tier, timeout=3000, heap="24g", cold=8 if ctx.tier == "quick" else 40)
    if ctx.tier == "thorough":
        stage_mc_replay(ctx, E, "fullgrid", "C19_MC", "C19_MC_thorough_grid.cfg", timeout=3000, heap="24g")
    stage_record_trace(ctx, E, "calls", "C19_Trace", "C19_Trace.cfg", heap="8g")


def run_C02(ctx, E):
    ctx.exhaustive = True
    side = os.path.join(ctx.work, "c02_printed.ndjson")
    os.environ["C02_PRINTED"] = side
    os.environ["C02_EVERY"] = str(T(ctx, 3, 400))
    stage_mc_replay(ctx, E, "exprs", "C02_MC", "C02_MC_%s.cfg" % ctx.tier, timeout=3300, heap="28g", cold=8 if ctx.tier == "quick" else 40)
    # the written-back text of the enumerated expressions, judged by the specification's INSDC recogniser
    n = sum(1 for _ in open(side))
    if n == 0:
        raise E.Machinery("no printed locations were collected")
    validate_trace(ctx, E, "printed", "C02_Trace", "C02_Trace.cfg", side, n, heap="8g")
    stage_record_trace(ctx, E, "random", "C02_Trace", "C02_Trace.cfg", heap="8g")


def run_C14(ctx, E):
    ctx.exhaustive = True
    stage_mc_replay(ctx, E, "layouts", "C14_MC", "C14_MC_%s.cfg" % ctx.tier, cold=8 if ctx.tier == "quick" else 40)
    stage_record_trace(ctx, E, "roundtrip", "C14_Trace", "C14_Trace.cfg", heap="16g")


def run_C16(ctx, E):
    stage_mc_replay(ctx, E, "listings", "C16_MC", "C16_MC.cfg", workers=1, cold=8 if ctx.tier == "quick" else 40)
    stage_record_trace(ctx, E, "listings", "C16_Trace", "C16_Trace.cfg", heap="16g")


def run_C01(ctx, E):
    stage_mc_replay(ctx, E, "layouts", "C01_MC", "C01_MC.cfg", workers=1, cold=8 if ctx.tier == "quick" else 40)   # long lines: one writer
    stage_record_trace(ctx, E, "files", "C01_Trace", "C01_Trace.cfg", heap="16g", timeout=3000)


def run_C03(ctx, E):
    # the specification side of C03 is GenbankFormat.tla (its theorem Read(Write(R)) = Expected(R) is model-checked by C01_MC)
    cases = os.path.join(ctx.work, "c03_records.ndjson")
    stage_mc_only(ctx, E, "format", "C01_MC", "C01_MC.cfg", env={"OUTFILE": cases}, workers=1)
    # every enumerated (record, layout) goes through Build as parsed image and as assembled structure, then random records
    stage_record_trace(ctx, E, "build", "C03_Trace", "C03_Trace.cfg", heap="16g", timeout=3000, env={"C03_CASES": cases})


def run_C15(ctx, E):
    ctx.exhaustive = True
    stage_mc_replay(ctx, E, "trees", "C15_MC", "C15_MC_%s.cfg" % ctx.tier, timeout=3000, heap="24g", cold=8 if ctx.tier == "quick" else 40)
    stage_record_trace(ctx, E, "roundtrip", "C15_Trace", "C15_Trace.cfg", heap="16g")


def run_C10(ctx, E):
    ctx.exhaustive = True
    for e in (("e1", "e2", "e4") if ctx.tier == "quick" else ("e1", "e2", "e3", "e4")):
        stage_mc_replay(ctx, E, e, "C10_MC", "C10_MC_%s_%s.cfg" % (ctx.tier, e), heap="24g", cold=8 if ctx.tier == "quick" else 40)
    stage_record_trace(ctx, E, "cut", "C10_Trace", "C10_Trace.cfg", heap="16g")


def run_C18(ctx, E):
    ctx.exhaustive = True
    stage_mc_replay(ctx, E, "combine", "C18_MC", "C18_MC_%s.cfg" % ctx.tier, cold=8 if ctx.tier == "quick" else 40)
    stage_record_trace(ctx, E, "combine", "C18_Trace", "C18_Trace.cfg", heap="8g")


_seqhash_note = ("trusted: TLC, community modules; the digest is uninterpreted in the specification and instantiated "
                 "in the replayer by a from-scratch BLAKE3 transcription pinned by the official test vectors; "
                 "double-stranded inputs containing Z or (under type DNA) U are outside the strand clauses (invariance, "
                 "separation); for DNA spelled with U the value clause alone (tag and digest of the lesser of the text "
                 "and its reverse complement) is replayed by C05 (mode dnau)")
PROPS = {
    "C15": dict(run=run_C15,
                technique="TLC enumeration of location trees with the published JSON form and the re-linking rule "
                          "(PolyJson.tla); every tree replayed through polyjson.Write / Read; the REAL JSON text of random "
                          "annotated sequences is deserialised by TLC's own Json module and judged by C15_Trace",
                level_text="every location expression with <= 2 operators over a 4-base (quick) / 5-base (thorough) parent is "
                           "a TLC state with the JSON form of a sequence holding that feature: polyjson.Write must produce "
                           "exactly that form (all published keys, nothing else; null = empty), polyjson.Read must return "
                           "the same value and the feature must report the bases its location denotes; random annotated "
                           "sequences (location trees to depth 4, partial flags, empty vs absent maps, non-ASCII text, "
                           "references, extra keywords) are written by the real code and the JSON text itself is read by "
                           "TLC (independent reader) and compared with JSequence(x); conversion GenBank / GFF -> JSON -> "
                           "same format must give the same text as writing the parsed input directly",
                level_note="trusted: TLC and its Json module (UTF-8), the harness's hand-written assembly of poly values; "
                           "JSON null and {} are read as the empty collection before comparison",
                rule="S->I: one case per location tree; I->S: one event per random sequence or conversion"),
    "C03": dict(run=run_C03,
                technique="TLC trace validation of recorded genbank.Build / Write runs: the text is read by the independent "
                          "reader of GenbankFormat.tla (whose consistency with the format's writer is model-checked), the "
                          "re-parsed record and eight repeated writes are compared",
                level_text="GenbankFormat.tla's reader is model-checked against its writer over 64 (record, layout) states; "
                           "for 40 (quick) / 400 (thorough) records - images of the parser over generated files, assembled "
                           "structures with cached location text, assembled structures without it; sequences to 2500 / "
                           "10^5 bases, 0..12 / 0..40 features with 0..5 qualifiers, 0..5 references with remarks, extra "
                           "keyword blocks, definitions up to 2000 characters - TLC requires (i) its reader recovers the "
                           "record from Build's bytes (files up to 700 lines), (ii) Parse(Build(x)) = x in every field and "
                           "every Location structure, (iii) eight Builds are byte-identical",
                level_note="trusted: TLC, community modules, the projection of poly.Sequence; the enumerated part is the 64 "
                           "(record, layout) states of C01_MC, everything else is generated at random",
                rule="I->S: one event per record (8 Builds + Parse each)"),
    "C01": dict(run=run_C01,
                technique="TLC evaluation of an independent GenBank flat-file writer (layout styles) and reader "
                          "(GenbankFormat.tla) with the theorem Read(Write(R, style)) = Expected(R); every laid-out file "
                          "replayed through Parse / Read / ParseMulti / ParseFlat; recorded large files from the harness's "
                          "writer re-read by the specification's reader and judged by C01_Trace",
                level_text="three abstract records holding the cases the property names (lower-case / two-letter names, "
                           "two-digit lengths, DNA / mRNA / tRNA, features without qualifiers, multi-line locations, "
                           "qualifier values with '/' and '=', wrapping values, flag / unquoted qualifiers, glued "
                           "/translation, 0..2 references with remark, COMMENT and DBLINK) x 16 layout styles: the "
                           "specification's reader recovers Expected(R) from each, all lines <= 80 columns, and the real "
                           "parsers must return Expected(R) field by field for the single record, through a file, and for "
                           "files of 1..3 records with / without final newline and with the 10-line flat-file header; "
                           "recorded: 30 (quick) / 300 (thorough) files from the harness's writer with random records "
                           "(sequences to 3000 / 10^5 bases, 0..12 / 0..40 features, 0..5 references, 1..5 records), each "
                           "first record re-read by the specification's reader (files up to 700 lines)",
                level_note="trusted: TLC, community modules, the projection of poly.Sequence; qualifier and extra-keyword "
                           "maps are compared as sets of pairs (qualifier keys unique per feature in the domain); the "
                           "ORIGIN block of very large files is not re-read letter by letter by TLC above 700 lines",
                rule="S->I: one case per (record, style), 13 parser entry points each; I->S: one event per generated file"),
    "C16": dict(run=run_C16,
                technique="TLC evaluation of an independent REBASE format-31 writer and reader (RebaseFormat.tla) with the "
                          "theorem Read(Lines(x)) = x; every laid-out listing replayed on rebase.Parse / Read / Export; "
                          "recorded listings re-read by the specification's reader and judged by C16_Trace",
                level_text="432 listings laid out by the specification's writer (0..3 records incl. empty fields and a "
                           "record with 4 supplier letters, 0..3 suppliers, three shapes of header prose, supplier lines "
                           "indented with 16 spaces / tab / tabs / mixed): every field verbatim, suppliers decoded through "
                           "the listing's own table, Read through a file, Export parsed back with the published key names; "
                           "recorded listings from the harness's writer with 0..40 (quick) / 0..300 (thorough) records, "
                           "0..15 supplier letters, arbitrary prose are read by the specification's reader and the "
                           "returned map and its export must equal Expected",
                level_note="trusted: TLC, community modules; an empty isoschizomer field may be returned as an empty list "
                           "or as one empty string",
                rule="S->I: one case per laid-out listing; I->S: one event per generated listing"),
    "C14": dict(run=run_C14,
                technique="TLC evaluation of an independent GFF3+FASTA writer and reader (GffFormat.tla) with the theorem "
                          "Read(Lines(x)) = x; every laid-out file replayed on gff.Parse; recorded gff.Build outputs read "
                          "by the specification's reader and round trips judged by C14_Trace",
                level_text="files laid out by the specification's writer for sequence lengths {1,2,3,69..72,139..141} "
                           "(quick) / every length 1..141 (thorough), wrap widths 60/70/80 (1..200), features at the "
                           "extreme coordinates: gff.Parse must return region, sequence, every feature field, 0-based "
                           "half-open coordinates and GetSequence = bases start..end; recorded gff.Build / Write outputs "
                           "for random records (lengths 1..5000 incl. 1 mod 70, 0..30 features, 1..6 attributes) are read "
                           "by the specification's independent reader, and gff.Parse of them must equal the record",
                level_note="trusted: TLC, community modules, the projection of poly.Sequence to the abstract record",
                rule="S->I: one case per (length, width, feature shape), with and without final newline; I->S: one event "
                     "per generated record"),
    "C02": dict(run=run_C02,
                technique="TLC exhaustive enumeration of location expressions with the INSDC denotation, printer and a "
                          "recursive-descent recogniser (Location.tla); every expression replayed through the location "
                          "parser, a GenBank record and an assembled structure; printed locations judged by the "
                          "specification's recogniser (C02_Trace)",
                level_text="every expression with <= 2 operators over a 4-base parent (quick) / <= 3 operators over a "
                           "6-base parent (thorough, binary joins, 2.9 M expressions), partial markers on expressions of "
                           "<= 1 operator, is a TLC state: Parse(Print(x)) = x and complement-involution hold on the "
                           "definition; the real sequence of each expression - parsed as text, parsed inside a GenBank "
                           "record, assembled as a structure - must equal the INSDC reading under two parents; the text "
                           "written back by BuildLocationString is recognised by the specification's INSDC grammar and must "
                           "denote the same bases with the same partial leaves (sampled 1/400 in thorough); random "
                           "expressions to depth 4 with joins of 2..6 operands on parents of 1..2000 bases likewise",
                level_note="trusted: TLC, community modules, the minimal GenBank record used to embed a location; the "
                           "build-tag-verif export of the location parser",
                rule="S->I: one case per expression (6 evaluations each); I->S: one event per random expression / sampled "
                     "printed location"),
    "C19": dict(run=run_C19,
                technique="TLC exhaustive evaluation of a fixed-point nearest-neighbour specification (Melting.tla: "
                          "ten duplex parameters closed under reverse complement, logarithm table on a grid) with "
                          "monotonicity theorems; every (oligo, grid point) replayed on primers.SantaLucia / MeltingTemp "
                          "/ MarmurDoty; TLC trace validation of random oligos to 200 nt and concentration sweeps",
                level_text="every A/C/G/T oligo of length 2..6 (quick) / 2..8 (thorough) is a TLC state, evaluated at 27 "
                           "grid points (thorough: also every oligo to length 6 at all 280 grid points) of oligo 1 nM..1 mM x sodium 1 mM..1 M x magnesium 0..100 mM: the real dH "
                           "must match exactly (0.1 kcal), dS within 0.01 + 0.0004 (N-1) cal/K, Tm within 0.05 K; "
                           "MeltingTemp must equal SantaLucia at the default conditions bit for bit, MarmurDoty the "
                           "formula, all results bit-identical in lower and mixed case; recorded calls on random oligos to "
                           "200 nt (random case, self-complementary ones included) are recomputed by TLC at grid points, "
                           "and off-grid sweeps of one concentration must give strictly increasing Tm and constant dH",
                level_note="numeric territory: TLC decides the STRUCTURE of the formula (terms, neighbours, symmetry factor, "
                           "constants) in 32-bit fixed point; natural logarithms come from a generated table "
                           "(python math.log, milli-units); trusted: TLC, community modules",
                rule="S->I: one case per oligo with all grid points; I->S: grid events + sweep events"),
    "C17": dict(run=run_C17,
                technique="TLC model checking of the barcode selection loop (Barcodes.tla, one action per attempt) over "
                          "every small input with the property as invariant; the real function is run on every "
                          "enumerated input and its output judged by TLC (C17_Trace), plus random/adversarial inputs",
                level_text="the loop model is checked for orders 2-3, lengths 3-5 (quick) / 2-8 (thorough), every set of "
                           "<= 2 banned words of length 2 (quick) / 2-3 (thorough) and <= 1 of three filters: ListOK "
                           "(length, substring, no shared n-mer, no ban, no reverse complement of a ban, filters accept) "
                           "holds for the repaired loop and TLC finds the adversarial inputs for the loop as first built; "
                           "the real function runs on each of those inputs (3288 / 52000) and on random inputs with orders "
                           "2..7 (8), lengths n..60, 0..5 bans of length 2..8 taken from the sequence itself, 0..3 "
                           "filters; TLC checks IsDeBruijn for orders 1..7 (8) and ListOK for every returned list",
                level_note="trusted: TLC, community modules, the filter predicates (written twice: Go and TLA+), the "
                           "harness's search for each barcode's offset (verified by TLC); De Bruijn orders above 8 are "
                           "counted by the harness only",
                rule="I->S: one event per call of the real function (TLC-enumerated inputs first, then random)"),
    "C20": dict(run=run_C20,
                technique="TLC model checking of the Uniprot parser loop with two channels and two consumer disciplines "
                          "(safety + termination, three loop variants); every scenario replayed on uniprot.Parse with "
                          "generated XML; TLC trace validation of runs truncated at every byte offset",
                level_text="UniprotStream.tla: documents with 0..2 (quick) / 0..3 (thorough) complete entries, undamaged / "
                           "damaged between entries / damaged inside an entry x consumer 'entries then errors' or 'both' "
                           "x channel capacities 0..2 (0..3) x every interleaving: entries in order, exact outcome, no "
                           "send on a closed channel, termination; the 'break only' and 'as built' loops are shown to "
                           "violate termination.  Each scenario is replayed 4 times (truncation / inserted garbage) on "
                           "the real parser under a 3 s deadline.  Recorded: documents of 0..2 (0..3) entries truncated at "
                           "EVERY byte offset, gzip streams cut at random offsets through uniprot.Read, documents of up "
                           "to 200 entries truncated / corrupted at random offsets, random disciplines and capacities "
                           "0..100; TLC derives from the logged offsets which entries precede the damage",
                level_note="trusted: TLC, community modules, the XML generator and its offset bookkeeping; schedules of "
                           "the real code are sampled, exhaustive interleavings exist at model level only; a stream cut "
                           "before its root element opens is allowed to read as empty",
                rule="S->I: one case per scenario; I->S: one event per run"),
    "C13": dict(run=run_C13,
                technique="TLC model checking of the streaming FASTA parser (producer / channel of capacity 0..3 / stalling "
                          "consumer) over every small file, safety + termination; every file replayed in five layouts "
                          "through all readers; TLC trace validation of recorded write/read and layout runs",
                level_text="every file of <= 5 (quick) / 6 (thorough) lines over header / sequence / blank / comment x "
                           "capacities 0..2 (0..3) x every interleaving: delivered = Records(file) at termination, prefix "
                           "at all times, closed exactly once, no send after close, termination; each file is replayed as "
                           "LF / no final newline / CRLF / re-wrapped / padded text through Parse, Read, ReadGz and "
                           "ParseConcurrent (capacities 0, 1, 1000, stalled consumer, plain and gzip); recorded runs with "
                           "1..200 records, sequences to 300000 letters (single lines beyond 64 KiB), capacities 0..1000 "
                           "are judged by C13_Trace (thorough: under the race detector)",
                level_note="trusted: TLC, community modules, the harness's layout writer (its lines are logged and "
                           "Records(lines) is recomputed by TLC for files up to 2000 lines)",
                rule="S->I: one case per in-domain file (25 reader/layout combinations each); I->S: one event per run"),
    "C09": dict(run=run_C09,
                technique="TLC model checking of the goroutine/channel/WaitGroup model of the ligation simulator "
                          "(all interleavings, safety + termination) and exhaustive enumeration of abstract fragment "
                          "pools with their rings; every pool concretised to DNA parts and run through clone.GoldenGate "
                          "at GOMAXPROCS 1/2/16 with seeded yields; hook-recorded synchronisation events validated by "
                          "C09_Trace",
                level_text="LigationConc.tla: every interleaving for all pools of <= 2 fragments over 2 overhang symbols "
                           "(quick) / five structured 2-3 fragment pools over 3 symbols (thorough): result = rings in "
                           "every schedule, no send on a closed channel, WaitGroup never negative and equal to the "
                           "number of live goroutines, close only after all are done, termination under fairness. "
                           "C09_MC.tla: every pool of <= 3 fragments over 2 (quick) / 3 (thorough, plus <= 4 over 2) "
                           "overhang symbols with all rings; each is turned into BsaI/BbsI/BtgZI parts (linear or "
                           "circular carriers at random rotation, lower case, permuted) and the set of returned "
                           "constructs must equal the rings as circular double-stranded molecules, without duplicates, "
                           "at three GOMAXPROCS values x 2 (quick) / 7 (thorough, race detector on) repetitions",
                level_note="trusted: TLC, community modules, the concretiser, the child-process driver (deadline + "
                           "memory watchdog); schedules of the real code are sampled (GOMAXPROCS, yields at hooks), "
                           "exhaustive interleaving coverage exists at model level only",
                rule="S->I: one case per abstract pool (6 or 21 real runs each); non-trivial = pool has at least one "
                     "ring; I->S: synchronisation events of up to 400 runs"),
    "C10": dict(run=run_C10,
                technique="TLC exhaustive evaluation of a cyclic, origin-free definition of directional Type IIS "
                          "digestion (Digest.tla) with a rotation-invariance theorem; every in-domain string replayed on "
                          "clone.CutWithEnzyme as linear and circular part; TLC trace validation of recorded digests",
                level_text="every A/C/G/T string to length 7-8 (quick) / 9-10 (thorough) is a TLC state for three or four "
                           "small custom enzymes (2- and 3-letter sites, skips 0-1, overhangs 1-2, one odd-length site "
                           "with palindromic flanks), so every rotation of every small plasmid is its own case; "
                           "fragments (forward overhang, interior, reverse overhang) must equal the geometric definition "
                           "as multisets, upper and lower case; recorded digests with BsaI, BbsI, BtgZI and random "
                           "custom enzymes on layouts of 20-3000 bases with 0-6 sites (every rotation of plasmids up to "
                           "300 bases) are recomputed by C10_Trace",
                level_note="trusted: TLC, community modules; fragments are delimited by CUTS in cut order (a backward "
                           "site close behind a forward one cuts upstream of it and is not its partner); the domain "
                           "restriction (no overlapping occurrences, overhang not longer than the site, paired cuts at "
                           "least two overhang lengths apart and lying between their two sites) is decided by the "
                           "specification (InDomainS); a panic of the real call is an outcome judged by the "
                           "specification",
                rule="S->I: one case per in-domain string (linear + circular); non-trivial = at least one fragment; "
                     "I->S: one event per CutWithEnzyme call"),
    "C07": dict(run=run_C07,
                technique="TLC evaluation of the eligibility definition (CodonTables!Eligible) over boundary weightings "
                          "with theorem invariants; per (code, weighting) case replayed on codon.Optimize for every "
                          "amino acid; TLC trace validation of recorded Optimize calls; the proportionality clause is a "
                          "z-test in the harness against the specification's weights",
                level_text="8 boundary weightings (1:9 = exactly 10 %, 1:10, 11:89, zero-weight codon, 10:30:60, dead "
                           "amino acids ...) x 4 (quick) / all 25 (thorough) genetic codes are TLC states with the "
                           "eligible codon set per residue; the real optimiser is run on 20000 (quick) / 100000 "
                           "(thorough) copies of every residue: every emitted codon must be eligible, the gene must "
                           "translate back, unencodable residues must give an error, and codon frequencies must match "
                           "the weights (|z| <= 6); recorded Optimize calls on random tables and proteins (incl. the "
                           "library's random protein generator) are judged codon by codon by C07_Trace",
                level_note="trusted: TLC, community modules; the proportionality clause is statistical and decided in "
                           "the harness (TLC supplies the expected distribution); Optimize seeds math/rand from the "
                           "clock, so draws are not reproducible",
                rule="S->I: one case per (code, weighting) with all residues; I->S: one event per Optimize call"),
    "C18": dict(run=run_C18,
                technique="TLC evaluation of the value layer of CodonTables.tla (AddW, CompW with explicit +/-1 slack "
                          "cells) with the property's clauses as invariants; every emitted (code, operands, cut-off) "
                          "case replayed on AddCodonTable / CompromiseCodonTable; TLC trace validation of recorded "
                          "combinations and of genes optimised with compromise tables",
                level_text="all pairs from six weightings (uniform, skewed, 1:9 / 1:10 / 11:89 boundaries, one outside "
                           "the domain) x 2 (quick) / 6 (thorough) genetic codes x 6 / 16 cut-offs from -1 to 2 are TLC "
                           "states: symmetry, zeroing, averaging, sum and the optimiser corollary hold on the definition, "
                           "and the real functions must reproduce sum exactly, compromise within 1, symmetry exactly, "
                           "errors outside 0..1, and keep code and start/stop codons; recorded combinations of tables "
                           "from random coding sequences to 10^5 bases over all 25 codes (cut-offs incl. realised shares "
                           "+/-1) are judged by C18_Trace",
                level_note="trusted: TLC, community modules, projection of real tables; operands are built through the "
                           "public API and detached from the default tables by a JSON round trip (KF-C08-1)",
                rule="S->I: one case per TLC state; I->S: 'combine' and 'opt' events",
                assumptions=["cells within 1 of a non-zero cut-off, and cells of amino acids with total weight 0, are "
                             "unconstrained"]),
    "C08": dict(run=run_C08,
                technique="TLC model checking of a two-machine session specification (value semantics vs. heap with "
                          "aliasing, CodonSession.tla); one behaviour per transition of the bounded state graph replayed "
                          "on the real API; recorded histories validated by C08_Trace (counting decided by TLC)",
                level_text="every transition of the session graph over {get, re-weight, add, compromise, serialise/"
                           "parse} x 3 table ids x 4 coding sequences x 3 handles to depth 4 (quick) / 5 (thorough) is "
                           "replayed as a history on the real API and the weights of every live table and of fresh "
                           "default tables are compared with both machines after the last step; the repaired design "
                           "(deep-copy Get) is model-checked to satisfy Pristine and Independence, the as-built design "
                           "to violate them; random histories to 50 steps with sequences to 10^5 bases are validated "
                           "step by step by the trace spec",
                level_note="trusted: TLC, community modules, the projection of a real table to triplet->weight/letter "
                           "maps; the default tables are restored between histories through the public API "
                           "(re-weighting with every codon once)",
                rule="S->I: one history per transition (BFS path + edge), non-trivial = at least 2 steps; I->S: one "
                     "event per API call of a random history, all judged",
                assumptions=["compromise cells within 1 of the cut-off or of amino acids with total weight 0 are "
                             "unconstrained (Wild)"]),
    "C06": dict(run=run_C06,
                technique="TLC complete enumeration of GeneticCode.tla (standard code + NCBI reassignments, start/stop "
                          "lists) with homomorphism theorems; every cell replayed on codon.Translate/GetCodonTable; TLC "
                          "trace validation of recorded translations and split points",
                level_text="all 25 x 64 codon cells and the 50 start/stop lists are TLC states and are replayed (complete, "
                           "not sampled; each codon in four casings); the homomorphism, partial-codon and case theorems "
                           "are checked on the definition for every mixed-case word to length 5 (quick) / 7 (thorough) "
                           "under three tables and replayed; recorded translations of random strings to 3000 letters "
                           "under every table, with every codon-boundary split of strings <= 300, are judged codon by "
                           "codon by C06_Trace",
                level_note="trusted: TLC, community modules; NCBI's tables are reproduced from memory as differences "
                           "from the standard code (no network), consistency ASSUMEs tie stop lists to '*' assignments",
                rule="S->I: one case per (table, codon) cell, per table list pair and per enumerated word; I->S: one "
                     "event per (table, random string)",
                assumptions=["Translate of the empty string may return an error or the empty protein"]),
    "C04": dict(run=run_C04,
                technique="TLC exhaustive evaluation of Seqhash.tla (canonical form, brute-force orbits) with orbit-"
                          "invariance theorems; every emitted (input, flags, tag, canon) replayed on seqhash.Hash; "
                          "TLC trace validation of metamorphic call pairs",
                level_text="every ACGT word to length 6 (quick) / 9 (thorough) under all flag combinations and both "
                           "nucleic-acid types, IUPAC+U words to length 2 / 4 and the full accepted alphabet with lower "
                           "case to length 2 / 3 are TLC states; CanonConstant / CaseBlind / RnaDna are checked on the "
                           "definition and the real identifier must equal v1_tag_BLAKE3(canon) for each state in upper, "
                           "lower and alternating case; recorded pairs (rotation, strand, both, case, RNA spelling) up to "
                           "10^5 bases are re-verified natively by C04_Trace and must hash equally",
                level_note=_seqhash_note,
                rule="S->I: one case per TLC state (word) carrying every in-domain flag combination; I->S: metamorphic "
                     "pairs derived by the harness from random, periodic and reverse-palindromic sequences"),
    "C05": dict(run=run_C05,
                technique="TLC exhaustive evaluation of Seqhash.tla with the theorem that <<tag, canon>> is a complete "
                          "orbit invariant; emitted cases (accept / tag / canon) replayed on seqhash.Hash against an "
                          "independent BLAKE3; TLC trace validation of near-miss pairs and rejections",
                level_text="as C04 plus protein words to length 2 / 3, every printable single letter (pairs in thorough) "
                           "under seven type spellings; CanonInOrbit + CanonConstant make equality with "
                           "v1_tag_BLAKE3(canon) on every state decide separation on the whole enumerated domain; "
                           "recorded near-miss pairs up to 200 letters must hash equally exactly when Canon is equal, "
                           "and rejections must match Accepts",
                level_note=_seqhash_note,
                rule="S->I: one case per TLC state; I->S: near-miss pairs (rotation when linear, strand when single "
                     "stranded, point mutation, reversal, complement, indel) and rejection events"),
    "C11": dict(run=run_C11,
                technique="TLC exhaustive evaluation of set-semantics IUPAC definitions (Nucleotides.tla) with theorem "
                          "invariants, all emitted cases replayed on the real functions, plus TLC trace validation",
                level_text="every word over the 15 IUPAC codes to length 3 (quick) / 5 (thorough) and over the 32 "
                           "mixed-case letters incl. U to length 2 / 3 is a TLC state; the clauses (length/case, "
                           "rc = reverse o complement, involution, anti-homomorphism at every split, palindrome = "
                           "fixpoint, expansion exact/duplicate-free/commuting with rc) are invariants on the "
                           "definition, and ReverseComplement, Complement, Reverse, IsPalindromic, AllVariantsIUPAC "
                           "must equal the definition on every state; recorded calls on random strings to 10^4 "
                           "letters are judged letter by letter by C11_Trace",
                level_note="trusted: TLC, community modules, my transcription of the IUPAC code sets; the complement "
                           "table is derived from base-set complementation, not copied from poly",
                rule="S->I: one case per TLC state (word); non-trivial = non-empty word. I->S: random / palindromic "
                     "strings (events rc, cat) and low-ambiguity words (event var)",
                assumptions=["AllVariantsIUPAC output is compared as a bag, case-insensitively",
                             "the empty word may expand to one empty variant or to none"]),
    "C12": dict(run=run_C12,
                technique="TLC exhaustive evaluation of a declarative least-rotation definition (Rotation.tla) with "
                          "all emitted cases replayed on seqhash.RotateSequence, plus TLC trace validation of recorded calls",
                level_text="TLC enumerates every string over 2/3/4-letter alphabets to the stated lengths (quick 12/8/6, "
                           "thorough 20/13/11, the property's own exhaustive bounds), checks the spec-level theorems "
                           "(is a rotation, minimal, one canonical form per orbit) and the real function must equal the "
                           "definition on every one of them; recorded calls on periodic/near-periodic/Fibonacci strings "
                           "up to 2000 letters are judged for minimality by the trace spec, up to 10^6 letters for "
                           "being the stated rotation",
                level_note="trusted: TLC, the Json/CSV community modules, the Go harness's byte<->ordinal mapping; "
                           "minimality beyond 2000 letters is not decided by the specification",
                rule="S->I: every string over alphabets of size 2/3/4 up to the tier's length bound (one TLC state "
                     "each), non-trivial = length >= 2; I->S: random/periodic/near-periodic/Fibonacci strings and "
                     "rotations of them, every event judged by C12_Trace",
                assumptions=["letters are compared as unsigned bytes (replayed with two order-preserving byte maps)",
                             "minimality of strings longer than 300 letters is not spec-decided (only 'is the "
                             "rotation at idx, same length, same canonical form for rotations of one string')"]),
}


def replay_one(ctx, E, path):
    """--replay: re-run the stages of the property; the replay file documents the failing case."""
    with open(path) as f:
        doc = json.load(f)
    E.log("replaying property %s; recorded violations: %d" % (doc.get("property"), len(doc.get("violations", []))))
    PROPS[ctx.pid]["run"](ctx, E)
