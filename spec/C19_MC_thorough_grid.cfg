CONSTANTS N = 6
CIdx = {1, 2, 3, 4, 5, 6, 7, 8}
NaIdx = {1, 2, 3, 4, 5, 6, 7}
MgIdx = {1, 2, 3, 4, 5}
SPECIFICATION Spec
INVARIANTS Emit Monotone
CHECK_DEADLOCK FALSE
