CONSTANTS M = 4
K = 6
UsedCheck = TRUE
ChanCap = 0
PoolSet = "all"
SPECIFICATION TSpec
CHECK_DEADLOCK FALSE
