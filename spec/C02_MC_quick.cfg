CONSTANTS P = 4
MaxOps = 2
Parent1 = "AGGT"
Parent2 = "CATG"
SPECIFICATION Spec
CONSTRAINT Constraint
INVARIANTS Check
CHECK_DEADLOCK FALSE
