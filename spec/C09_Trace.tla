----------------------------- MODULE C09_Trace -----------------------------
(* I->S for C09: synchronisation events recorded (build tag verif) from     *)
(* real runs of clone.GoldenGate, ordered by a sequence number taken under  *)
(* the hook's mutex, validated against the discipline of LigationConc.tla:  *)
(*   begin                     a new run (TraceReset)                       *)
(*   spawn(F,R)                wg.Add(1) done, goroutine about to be started*)
(*   start(F,R) / done(F,R)    goroutine entry / deferred exit (before      *)
(*                             wg.Done())                                   *)
(*   send(c) / sent(c)         about to send construct c on the unbuffered  *)
(*                             channel / the hand-off has completed         *)
(*   recv(c)                   the collector logs the construct it received *)
(*                             (may be logged late, but before `result`)    *)
(*   closing                   wg.Wait() has returned, channel about to be  *)
(*                             closed                                       *)
(*   result                    the collector saw the closed channel         *)
(*   return(list)              what the API call returned                   *)
(* Rejected e.g.: closing while a spawned goroutine is not done, a receive  *)
(* that nobody sent, anything sent or spawned after closing, a result that  *)
(* is not the in-order de-duplication (up to rotation and strand, decided   *)
(* by Seqhash!Canon) of the received constructs.                            *)
EXTENDS Seqhash, Json, CSV, IOUtils
Trace == ndJsonDeserialize(IOEnv.TRACEFILE)
VARIABLES l, spawned, started, finished, announced, completed, logged, received, closing, resulted
vars == <<l, spawned, started, finished, announced, completed, logged, received, closing, resulted>>

Key(c) == Join(Canon(Chars(c), "DNA", TRUE, TRUE))
RECURSIVE Dedupe(_, _, _)
Dedupe(q, i, seen) == IF i > Len(q) THEN <<>>
                      ELSE IF Key(q[i]) \in seen THEN Dedupe(q, i + 1, seen)
                      ELSE <<q[i]>> \o Dedupe(q, i + 1, seen \cup {Key(q[i])})
Count(bag, c) == IF c \in DOMAIN bag THEN bag[c] ELSE 0
AddOne(bag, c) == IF c \in DOMAIN bag THEN [bag EXCEPT ![c] = @ + 1] ELSE bag @@ (c :> 1)

(* announced / completed / logged: per construct, how many sends were announced (send), completed (sent) and *)
(* logged by the collector (recv).  The collector may log a receive before or after the sender logs `sent`.   *)
Judge(e) ==
    CASE e.ev = "begin"   -> "ok"
      [] e.ev = "spawn"   -> IF closing THEN "a goroutine is spawned after wg.Wait() returned" ELSE "ok"
      [] e.ev = "start"   -> IF started >= spawned THEN "a goroutine runs that was never counted in the WaitGroup" ELSE "ok"
      [] e.ev = "done"    -> IF finished >= started THEN "more goroutine exits than entries" ELSE "ok"
      [] e.ev = "send"    -> IF closing THEN "a construct is sent after wg.Wait() returned (send on a channel about to be closed)" ELSE "ok"
      [] e.ev = "sent"    -> IF Count(completed, e.a) >= Count(announced, e.a) THEN "a hand-off completed that was never started" ELSE "ok"
      [] e.ev = "recv"    -> IF Count(logged, e.a) >= Count(announced, e.a) THEN "the collector received a construct nobody sent"
                             ELSE IF resulted THEN "received after the channel was seen closed" ELSE "ok"
      [] e.ev = "closing" -> IF finished # spawned THEN "channel closed while spawned goroutines are still running (WaitGroup released early)"
                             ELSE IF \E c \in DOMAIN announced : Count(completed, c) # announced[c] THEN "channel closed with a construct still in flight"
                             ELSE "ok"
      [] e.ev = "result"  -> IF ~closing THEN "collector finished before the channel was closed"
                             ELSE IF \E c \in DOMAIN announced : Count(logged, c) # announced[c] THEN "collector finished without having received every construct that was sent"
                             ELSE "ok"
      [] e.ev = "return"  -> IF ~resulted THEN "the call returned before the collector finished"
                             ELSE IF e.result # Dedupe(received, 1, {}) THEN "returned constructs are not the in-order de-duplication of the received ones"
                             ELSE "ok"
Init == /\ l = 1 /\ spawned = 0 /\ started = 0 /\ finished = 0 /\ announced = <<>> /\ completed = <<>> /\ logged = <<>>
        /\ received = <<>> /\ closing = FALSE /\ resulted = FALSE
Bump(bag, e, name) == IF e.ev = "begin" THEN <<>> ELSE IF e.ev = name THEN AddOne(bag, e.a) ELSE bag
Next == /\ l <= Len(Trace)
        /\ LET e == Trace[l] r == Judge(e) IN
             /\ CSVWrite("%1$s", <<ToJson([l |-> l, v |-> IF r = "ok" THEN "ok" ELSE "bad", why |-> r])>>, IOEnv.VERDICTFILE)
             /\ spawned' = IF e.ev = "begin" THEN 0 ELSE IF e.ev = "spawn" THEN spawned + 1 ELSE spawned
             /\ started' = IF e.ev = "begin" THEN 0 ELSE IF e.ev = "start" THEN started + 1 ELSE started
             /\ finished' = IF e.ev = "begin" THEN 0 ELSE IF e.ev = "done" THEN finished + 1 ELSE finished
             /\ announced' = Bump(announced, e, "send")
             /\ completed' = Bump(completed, e, "sent")
             /\ logged' = Bump(logged, e, "recv")
             /\ received' = IF e.ev = "begin" THEN <<>> ELSE IF e.ev = "recv" THEN Append(received, e.a) ELSE received
             /\ closing' = IF e.ev = "begin" THEN FALSE ELSE IF e.ev = "closing" THEN TRUE ELSE closing
             /\ resulted' = IF e.ev = "begin" THEN FALSE ELSE IF e.ev = "result" THEN TRUE ELSE resulted
        /\ l' = l + 1
Spec == Init /\ [][Next]_vars
Accepted == TLCGet("stats").diameter - 1 = Len(Trace)
============================================================================
