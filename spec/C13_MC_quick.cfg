CONSTANTS MaxLines = 5
Caps = {0, 1, 2}
SPECIFICATION Spec
INVARIANTS Delivered Prefix ClosedOnce NoSendAfterClose Emit
PROPERTY Termination
CHECK_DEADLOCK FALSE
