CONSTANTS Ids18 = {1, 11}
Tier = "quick"
SPECIFICATION Spec
INVARIANTS Check
CHECK_DEADLOCK FALSE
