CONSTANTS N = 8
CIdx = {1, 3, 4, 6, 8}
NaIdx = {1, 2, 4, 6, 7}
MgIdx = {1, 2, 3, 4, 5}
SPECIFICATION Spec
INVARIANTS Emit Monotone
CHECK_DEADLOCK FALSE
