CONSTANTS N = 8
CIdx = {1, 4, 8}
NaIdx = {1, 4, 7}
MgIdx = {1, 3, 5}
SPECIFICATION Spec
INVARIANTS Emit Monotone
CHECK_DEADLOCK FALSE
