-------------------------------- MODULE Cli --------------------------------
(* The poly command line (cmd/poly), file mode: `poly convert -o <o> files`  *)
(* and `poly hash files`.  Each matched input file is handled by its own     *)
(* goroutine: it is parsed according to its extension and written to an      *)
(* output path derived from the -o flag.  The file system is a function      *)
(* path -> content tag.                                                      *)
(*   OutPath(p, o)   where the conversion of input p goes                    *)
(*   ConvertOK       relation between the directory before and after: every  *)
(*                   path that is the OutPath of some convertible input      *)
(*                   holds the conversion of that input; if SEVERAL inputs   *)
(*                   map to one output path their goroutines write it at the *)
(*                   same time and the specification leaves the content open *)
(*                   (observed on the real CLI: a mixture of both files);    *)
(*                   an input is never overwritten by itself; all other      *)
(*                   paths are untouched                                     *)
(*   HashOK          one line "<seqhash>  <path>" per input, in any order    *)
EXTENDS Str, Integers, FiniteSets
Dots(p) == {i \in 1..Len(p) : SubSeq(p, i, i) = "."}
Slashes(p) == {i \in 1..Len(p) : SubSeq(p, i, i) = "/"}
LastDot(p) == CHOOSE i \in Dots(p) : \A j \in Dots(p) : j <= i
HasExt(p) == Dots(p) # {} /\ \A s \in Slashes(p) : s < LastDot(p)
Ext(p) == IF HasExt(p) THEN SubSeq(p, LastDot(p) + 1, Len(p)) ELSE ""
Stem(p) == IF HasExt(p) THEN SubSeq(p, 1, LastDot(p) - 1) ELSE p
InputExts == {"gbk", "gb", "gff", "json"}
OutPath(p, o) == IF HasExt(o) THEN o ELSE Stem(p) \o "." \o o
OutExt(o) == IF HasExt(o) THEN Ext(o) ELSE o
Writes(p, o) == /\ OutPath(p, o) # p                              \* never onto itself (a warning is printed instead)
                /\ OutExt(o) \in {"json", "gff", "gbk"} \/ o = "gb"
(* after: function path -> [from], from = "unchanged" | "absent" | the input path whose conversion the file holds | "other" *)
ConvertOK(paths, inputs, o, after) ==
    \A q \in paths :
        LET srcs == {p \in inputs : Ext(p) \in InputExts /\ Writes(p, o) /\ OutPath(p, o) = q} IN
        IF srcs = {} THEN after[q] \in {"unchanged", "absent"}
        ELSE IF Cardinality(srcs) = 1 THEN after[q] \in srcs
        ELSE TRUE      \* several goroutines write this path at the same time: the result is unspecified (observed: torn files)
=============================================================================
