CONSTANTS Mode = "hom"
N = 5
HomIds = {1, 2, 22}
SPECIFICATION Spec
INVARIANTS Emit Hom
CHECK_DEADLOCK FALSE
