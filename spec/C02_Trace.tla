----------------------------- MODULE C02_Trace -----------------------------
(* I->S for C02.                                                            *)
(*  [k|->"loc", text, parent, viaparser, viarecord, viastruct, printed,      *)
(*   printed2]   viastruct is evaluated AFTER the first write, printed2 is   *)
(*   a second write of the same structure                                   *)
(*     text: a location in INSDC syntax (written by the harness from a      *)
(*     random expression; re-recognised here), parent: the parent sequence, *)
(*     viaparser / viarecord / viastruct: Feature.GetSequence() after       *)
(*     parsing the text with the location parser / inside a GenBank record  *)
(*     / after assembling the structure ("<panic: ...>" if it panicked),    *)
(*     printed: genbank.BuildLocationString of the assembled structure.     *)
(*  The denotation is computed here (Location!BasesOf); the printed text    *)
(*  must be recognised by the INSDC grammar of the specification and denote *)
(*  the same bases with the same partial markers on the same leaves.        *)
EXTENDS Location, Sequences, Json, CSV, IOUtils
Trace == ndJsonDeserialize(IOEnv.TRACEFILE)
VARIABLES l
Judge(e) ==
    LET r == Parse(e.text, FALSE) IN
    IF ~r.ok \/ ~InRange(r.ast, Len(e.parent)) THEN "harness: text is not a valid in-range INSDC location"
    ELSE LET want == BasesOf(r.ast, e.parent)
             strict == Parse(e.printed, FALSE)
             lax == Parse(e.printed, TRUE) IN
         IF e.viaparser # want THEN "sequence of the parsed location differs from the INSDC reading (got " \o e.viaparser \o ", want " \o want \o ")"
         ELSE IF e.viarecord # want THEN "sequence of the feature parsed from a GenBank record differs from the INSDC reading"
         ELSE IF e.viastruct # want THEN "sequence of the assembled structure differs from the INSDC reading (got " \o e.viastruct \o ", want " \o want \o ")"
         ELSE IF e.printed2 # e.printed THEN "writing the same location to text twice gives two different texts (" \o e.printed \o " then " \o e.printed2 \o "): the first write altered the structure"
         ELSE IF strict.ok THEN
              (IF InRange(strict.ast, Len(e.parent)) /\ BasesOf(strict.ast, e.parent) = want /\ Leaves(strict.ast) = Leaves(r.ast)
               THEN "ok" ELSE "the location written back to text denotes different bases or different partial ends: " \o e.printed)
         ELSE IF lax.ok /\ InRange(lax.ast, Len(e.parent)) /\ BasesOf(lax.ast, e.parent) = want /\ Leaves(lax.ast) = Leaves(r.ast)
              THEN "dev:C02-three-prime-partial-suffix"
         ELSE "the location written back to text is not valid INSDC syntax: " \o e.printed
Init == l = 1
Next == /\ l <= Len(Trace)
        /\ LET r == Judge(Trace[l]) IN
             CSVWrite("%1$s", <<ToJson([l |-> l, v |-> IF r = "ok" \/ SubSeq(r, 1, 4) = "dev:" THEN r ELSE "bad", why |-> r])>>, IOEnv.VERDICTFILE)
        /\ l' = l + 1
Spec == Init /\ [][Next]_l
Accepted == TLCGet("stats").diameter - 1 = Len(Trace)
============================================================================
