------------------------------- MODULE Digest -------------------------------
(* Directional digestion with a Type IIS restriction enzyme (C10, used by    *)
(* C09).  An enzyme is [site, rsite, skip, ovh]: recognition site, its       *)
(* reverse complement, number of bases skipped between site and overhang,    *)
(* overhang length.  A forward site at 0-based start p cuts after            *)
(* p + |site| + skip (its overhang is the next ovh bases); a backward site   *)
(* (an occurrence of rsite) at start p cuts before p - skip (its overhang is *)
(* the ovh bases before that point).  Directional digestion keeps exactly    *)
(* the stretches between the cut of a forward site and the NEXT cut when     *)
(* that cut is a backward site's.                                            *)
(*                                                                           *)
(* Sequences are native strings (upper case); positions are 0-based; a       *)
(* circular part is read cyclically, so nothing depends on the stored origin.*)
EXTENDS Integers, Sequences, FiniteSets, TLC

Tripled(s) == s \o s \o s
(* window of length k starting at 0-based cyclic position p of a circular string of length n *)
CycSub(s, p, k) == SubSeq(Tripled(s), (p % Len(s)) + 1, (p % Len(s)) + k)

SitePositions(s, circ, site) ==
    LET n == Len(s) L == Len(site) IN
    IF n < L THEN {}
    ELSE IF circ THEN {p \in 0..n - 1 : CycSub(s, p, L) = site}
    ELSE {p \in 0..n - L : SubSeq(s, p + 1, p + L) = site}
(* all sites as records; a non-palindromic enzyme has distinct forward and backward words *)
Sites(s, circ, e) == {[pos |-> p, fwd |-> TRUE] : p \in SitePositions(s, circ, e.site)}
                     \cup {[pos |-> p, fwd |-> FALSE] : p \in SitePositions(s, circ, e.rsite)}

(* The remaining operators take the site set S (computed once by the caller) and n = Len(s). *)
(* distance from site a forward (cyclically, or linearly) to site b; 0 < d <= n for a # b on a circle *)
DistN(n, circ, a, b) == IF circ THEN ((b.pos - a.pos - 1) % n) + 1 ELSE b.pos - a.pos
Follows(circ, a, b) == b # a /\ (circ \/ b.pos > a.pos)
(* the site that follows a (none on a linear part if a is last) *)
HasNextS(S, circ, a) == \E b \in S : Follows(circ, a, b)
NextSiteS(S, n, circ, a) == CHOOSE b \in S : Follows(circ, a, b) /\
                               \A c \in S : Follows(circ, a, c) => DistN(n, circ, a, b) <= DistN(n, circ, a, c)

(* Cuts.  A forward site cuts where its overhang starts, a backward site where its overhang ends.    *)
(* Fragments are delimited by CUTS in the order in which the cuts lie on the molecule - which is the *)
(* order of the sites except where a backward site follows a forward one so closely that its cut     *)
(* lies upstream of the forward site's cut (the two are then not paired with each other).            *)
CutOf(e, a) == IF a.fwd THEN a.pos + Len(e.site) + e.skip ELSE a.pos - e.skip
(* distance from the cut of a onward to the cut of b: 0..n-1 round a circle; the plain difference on a linear part *)
CutDist(n, circ, e, a, b) == IF circ THEN (CutOf(e, b) - CutOf(e, a)) % n ELSE CutOf(e, b) - CutOf(e, a)
CutFollows(n, circ, e, a, b) == b # a /\ (circ \/ CutDist(n, circ, e, a, b) >= 0)
HasNextCutS(S, n, circ, e, a) == \E b \in S : CutFollows(n, circ, e, a, b)
(* the site whose cut comes next after the cut of a (of two cuts at one point the forward one comes first) *)
NextCutS(S, n, circ, e, a) ==
    CHOOSE b \in S : /\ CutFollows(n, circ, e, a, b)
                     /\ \A c \in S : CutFollows(n, circ, e, a, c) =>
                            \/ CutDist(n, circ, e, a, b) < CutDist(n, circ, e, a, c)
                            \/ CutDist(n, circ, e, a, b) = CutDist(n, circ, e, a, c) /\ (b.fwd \/ ~c.fwd)
PairsS(S, n, circ, e) == {a \in S : a.fwd /\ HasNextCutS(S, n, circ, e, a) /\ ~NextCutS(S, n, circ, e, a).fwd}

(* the property's restriction on layouts: occurrences do not overlap one another, the overhang is not *)
(* longer than the site, and paired cuts are at least two overhang lengths apart                      *)
InDomainS(S, n, circ, e) ==
    LET L == Len(e.site) IN
    /\ e.ovh <= L
    /\ \A a, b \in S : a # b => a.pos # b.pos
    /\ \A a \in S : HasNextS(S, circ, a) => DistN(n, circ, a, NextSiteS(S, n, circ, a)) >= L
    /\ \A a \in PairsS(S, n, circ, e) :
          LET b == NextCutS(S, n, circ, e, a) IN
          /\ CutDist(n, circ, e, a, b) >= 2 * e.ovh
          \* the stretch between paired cuts lies between the two sites (no pair is formed by going all the way
          \* round a circle from a forward cut to the crossing cut of the backward site right behind it)
          /\ CutDist(n, circ, e, a, b) = DistN(n, circ, a, b) - L - 2 * e.skip
    /\ circ => n >= L
InDomain(s, circ, e) == InDomainS(Sites(s, circ, e), Len(s), circ, e)

(* the fragment cut out between the cut of forward site a and the cut of backward site b *)
FragmentOf(s, circ, e, a, b) ==
    LET start == CutOf(e, a)
        len == CutDist(Len(s), circ, e, a, b)
        txt == IF circ THEN CycSub(s, start, len) ELSE SubSeq(s, start + 1, start + len) IN
    [fo |-> SubSeq(txt, 1, e.ovh), seq |-> SubSeq(txt, e.ovh + 1, len - e.ovh), ro |-> SubSeq(txt, len - e.ovh + 1, len), at |-> a.pos]
(* the set of fragments, each tagged with the position of its forward site (so equal fragments stay distinct) *)
FragmentsS(S, s, circ, e) == {FragmentOf(s, circ, e, a, NextCutS(S, Len(s), circ, e, a)) : a \in PairsS(S, Len(s), circ, e)}
Fragments(s, circ, e) == FragmentsS(Sites(s, circ, e), s, circ, e)

(* DEVIATION C10-forward-site-at-origin (as built): on a circular part the fragment of a forward site *)
(* whose cut lies beyond the stored end of the sequence (pos + |site| + skip > n) is dropped           *)
DroppedAsBuilt(s, circ, e, f) == circ /\ f.at + Len(e.site) + e.skip > Len(s)
FragmentsAsBuilt(s, circ, e) == {f \in Fragments(s, circ, e) : ~DroppedAsBuilt(s, circ, e, f)}

(* multiset view: fragment text -> multiplicity *)
Strip(f) == [fo |-> f.fo, seq |-> f.seq, ro |-> f.ro]
BagOf(F) == [x \in {Strip(f) : f \in F} |-> Cardinality({f \in F : Strip(f) = x})]
=============================================================================
