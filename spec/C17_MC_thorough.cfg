CONSTANTS Orders = {3}
Lens = {3, 4, 5}
MaxBans = 2
BanLen = 3
Fixpoint = TRUE
SPECIFICATION Spec
INVARIANTS PropertyHolds NoSharedWord EmitInput
CHECK_DEADLOCK FALSE
