CONSTANTS Ids07 = {1,2,3,4,5,6,9,10,11,12,13,14,16,21,22,23,24,25,26,27,28,29,30,31,33}
SPECIFICATION Spec
INVARIANTS Check
CHECK_DEADLOCK FALSE
