------------------------- MODULE LigationConc_Trace -------------------------
(* I->S for C09 at the level of the ACTIONS of LigationConc: every recorded  *)
(* run of clone.CircularLigate must be a behaviour of that specification.    *)
(* The events are those of the verif hooks (see C09_Trace for the list), one *)
(* per line, ordered by a sequence number taken under the hook's mutex; a    *)
(* run starts with                                                           *)
(*   [ev |-> "begin", pool, ov, body, rcbody]                                *)
(* pool: the abstract pool the harness built the fragments from (<<[f, r]>>, *)
(* fragment i of the call is pool[i]); ov[o]: the DNA of overhang symbol o;  *)
(* body[i] / rcbody[i]: the sequence of fragment i and its reverse           *)
(* complement - and ends with [ev |-> "return", result].                     *)
(*                                                                           *)
(* Which goroutine an event belongs to is not logged as an id; spawn, start  *)
(* and done carry the chain spelled so far (forward overhang + sequence) and *)
(* its open end, send / sent / recv the finished construct, so the goroutine *)
(* of the model is determined by its chain (fragment bodies are distinct)    *)
(* and the search is linear in the length of the trace.  (With overhangs     *)
(* only, as first built, chains that share their ends made the inference     *)
(* branch without bound: two validations ran for 45 minutes.)                *)
(* Grain of atomicity:                                                       *)
(*   spawn(F,R)    MainSeed, or GSpawn(g) for a g whose next candidate gives *)
(*                 a chain with those overhangs                              *)
(*   start, send   no model step (the model's goroutine exists from its      *)
(*                 spawn; the hand-off is the rendezvous) - but a goroutine  *)
(*                 in the matching state must exist                          *)
(*   sent / recv   the hand-off is split into its sender side (sent: the     *)
(*                 goroutine moves on) and its collector side (recv: Absorb, *)
(*                 the de-duplication of LigationConc), with any number of   *)
(*                 constructs in between (inchan) and either side allowed to *)
(*                 be logged first (early): a rendezvous (the code as built, *)
(*                 GSend) and a buffered channel (GPut / CollTake) are both  *)
(*                 behaviours of this trace specification - the property     *)
(*                 does not depend on the capacity of the channel            *)
(*   done(F,R)     GExit(g)                                                  *)
(*   closing       MainClose   (MainWait is a silent step taken before it)   *)
(*   result        CollFinish                                                *)
(*   return(list)  MainGet, and the list is the collector's list as DNA      *)
(* Silent steps (no hook): MainStartColl right after the last seed, MainWait *)
(* as soon as the counter is 0 - both taken eagerly, which loses nothing     *)
(* because nothing else is enabled that they could disable.                  *)
(* Every invariant of LigationConc is evaluated in every state of every run  *)
(* (InvWhy, reported as a verdict of the line that follows the state).       *)
(* An event that no action explains gives a "bad" verdict for that line and  *)
(* the rest of the run is skipped (dead); the next begin resynchronises.     *)
(* Because of the inference several branches may exist: a line is accepted   *)
(* if ANY branch explains it (the checker merges the verdict lines by l).    *)
EXTENDS LigationConc, Str, Json, CSV, IOUtils
Trace == ndJsonDeserialize(IOEnv.TRACEFILE)
VARIABLES l, b, inchan, early, dead
tvars == <<vars, l, b, inchan, early, dead>>

Cur == Trace[b]
OvStr(o) == Cur.ov[o]
PieceStr(x) == IF x[2] THEN Cur.body[x[1]] ELSE Cur.rcbody[x[1]]
Construct(chain) == Join([i \in 1..Len(chain) |-> OvStr(Fo(pool, chain[i])) \o PieceStr(chain[i])])
Count(bag, c) == IF c \in DOMAIN bag THEN bag[c] ELSE 0
Inc(bag, c) == IF c \in DOMAIN bag THEN [bag EXCEPT ![c] = @ + 1] ELSE bag @@ (c :> 1)
Dec(bag, c) == [bag EXCEPT ![c] = @ - 1]
Live(g) == gs[g].st # "done"
Ovs(g, a, bb) == Construct(gs[g].chain) = a /\ OvStr(RoC(gs[g].chain)) = bb

TInit == /\ l = 1 /\ b = 1 /\ inchan = <<>> /\ early = <<>> /\ dead = FALSE
         /\ pool = <<>> /\ gs = <<>> /\ wg = 0 /\ closed = FALSE
         /\ coll = [pc |-> "idle", seen |-> {}, list |-> <<>>]
         /\ main = [pc |-> "returned", i |-> 1] /\ result = <<>> /\ chan = <<>>

Begin(e) == /\ pool' = e.pool /\ gs' = <<>> /\ wg' = 0 /\ closed' = FALSE
            /\ coll' = [pc |-> "idle", seen |-> {}, list |-> <<>>]
            /\ main' = [pc |-> "seed", i |-> 1] /\ result' = <<>> /\ chan' = <<>>
            /\ b' = l /\ inchan' = <<>> /\ early' = <<>> /\ dead' = FALSE

Keep == UNCHANGED <<b, inchan, early, dead>>
(* what explains one logged event *)
Explain(e) ==
    CASE e.ev = "spawn" ->
            /\ \/ /\ main.pc = "seed" /\ main.i <= Len(pool)
                  /\ Construct(<<<<main.i, TRUE>>>>) = e.a /\ OvStr(pool[main.i].r) = e.b
                  /\ MainSeed
               \/ \E g \in Gids : /\ gs[g].st = "looping"
                                  /\ Construct(Append(gs[g].chain, Cands[gs[g].k])) = e.a /\ OvStr(Ro(pool, Cands[gs[g].k])) = e.b
                                  /\ GSpawn(g)
            /\ Keep
      [] e.ev = "start" -> (\E g \in Gids : Live(g) /\ Ovs(g, e.a, e.b)) /\ UNCHANGED vars /\ Keep
      [] e.ev = "send"  -> (\E g \in Gids : gs[g].st = "sending" /\ Construct(gs[g].chain) = e.a) /\ UNCHANGED vars /\ Keep
      [] e.ev = "recv"  ->      \* the collector's side of the hand-off
            /\ coll.pc = "recv"
            /\ \E g \in Gids : /\ Construct(gs[g].chain) = e.a
                               /\ coll' = Absorb(coll, gs[g].chain)
                               /\ IF Count(inchan, e.a) > 0
                                  THEN inchan' = Dec(inchan, e.a) /\ UNCHANGED early            \* it was in the channel
                                  ELSE /\ \E h \in Gids : gs[h].st = "sending" /\ Construct(gs[h].chain) = e.a
                                       /\ early' = Inc(early, e.a) /\ UNCHANGED inchan          \* its sender has not logged `sent` yet
            /\ UNCHANGED <<pool, gs, wg, closed, main, result, chan, b, dead>>
      [] e.ev = "sent"  ->      \* the sender's side of the hand-off
            /\ ~closed
            /\ \E g \in Gids : /\ gs[g].st = "sending" /\ Construct(gs[g].chain) = e.a
                               /\ gs' = [gs EXCEPT ![g].st = "exiting"]
            /\ IF Count(early, e.a) > 0 THEN early' = Dec(early, e.a) /\ UNCHANGED inchan
                                         ELSE inchan' = Inc(inchan, e.a) /\ UNCHANGED early
            /\ UNCHANGED <<pool, wg, closed, coll, main, result, chan, b, dead>>
      [] e.ev = "done"  -> (\E g \in Gids : gs[g].st = "exiting" /\ Ovs(g, e.a, e.b) /\ GExit(g)) /\ Keep
      [] e.ev = "closing" -> MainClose /\ Keep
      [] e.ev = "result" -> /\ \A c \in DOMAIN inchan : inchan[c] = 0         \* nothing left in the channel
                            /\ \A c \in DOMAIN early : early[c] = 0
                            /\ CollFinish /\ Keep
      [] e.ev = "return" -> /\ MainGet
                            /\ e.result = [i \in 1..Len(coll.list) |-> Construct(coll.list[i])]
                            /\ Keep
      [] OTHER -> FALSE

(* the invariants of LigationConc, evaluated on the states of real runs (the harness ends the trace with an "end" line) *)
InvWhy == IF pool = <<>> \/ dead THEN ""
          ELSE IF ~WgNeverNegative THEN "WgNeverNegative"
          ELSE IF ~NoSendOnClosed THEN "NoSendOnClosed"
          ELSE IF ~CloseAfterAllDone THEN "CloseAfterAllDone"
          ELSE IF ~WgCountsLive THEN "WgCountsLive"
          ELSE IF ~ResultIsRings THEN "ResultIsRings (the returned constructs are exactly the rings of the pool, each once)"
          ELSE ""
SilentEnabled == ~dead /\ (ENABLED MainStartColl \/ ENABLED MainWait)
Verdict(v, why) == CSVWrite("%1$s", <<ToJson([l |-> l, v |-> v, why |-> why])>>, IOEnv.VERDICTFILE)
TNext ==
    IF SilentEnabled THEN (MainStartColl \/ MainWait) /\ UNCHANGED <<l, b, inchan, early, dead>>
    ELSE /\ l <= Len(Trace)
         /\ l' = l + 1
         /\ LET e == Trace[l] IN
            IF InvWhy # "" THEN /\ Verdict("bad", "invariant " \o InvWhy \o " of LigationConc does not hold in the state reached before this event")
                                /\ IF e.ev = "begin" THEN Begin(e) ELSE dead' = TRUE /\ UNCHANGED <<vars, b, inchan, early>>
            ELSE IF e.ev = "begin" THEN Begin(e) /\ Verdict("ok", "")
            ELSE IF e.ev = "noreturn" THEN /\ Verdict("bad", "clone.CircularLigate did not return within the deadline (Termination)")
                                          /\ dead' = TRUE /\ UNCHANGED <<vars, b, inchan, early>>
            ELSE IF e.ev = "end" THEN UNCHANGED <<vars, b, inchan, early, dead>> /\ Verdict("ok", "")
            ELSE IF dead THEN UNCHANGED <<vars, b, inchan, early, dead>> /\ Verdict("skip", "an earlier event of this run was rejected")
            ELSE \/ Explain(e) /\ Verdict("ok", "")
                 \/ /\ ~ENABLED Explain(e)
                    /\ dead' = TRUE /\ UNCHANGED <<vars, b, inchan, early>>
                    /\ Verdict("bad", "no action of LigationConc explains the " \o e.ev \o " event in the state reached (main " \o main.pc
                                      \o ", wg " \o ToString(wg) \o ", goroutines " \o ToString(Len(gs)) \o ", collector " \o coll.pc \o ")")
TSpec == TInit /\ [][TNext]_tvars
=============================================================================
