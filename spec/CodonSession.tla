---------------------------- MODULE CodonSession ----------------------------
(* The codon-table SESSION machine (C08), shared by C08_MC and C08_Trace.    *)
(* Two machines run in lock-step over one operation alphabet:                *)
(*                                                                           *)
(*  Ideal    (hI) value semantics: every Get yields a fresh, independent     *)
(*           table with weights Ones; Reweight replaces the handle's table   *)
(*           by the counts; Add / Compromise / Roundtrip yield fresh tables. *)
(*  AsBuilt  (heap, hA) what the code does: a heap of weight vectors;        *)
(*           address k <= |Ids| holds default table IdSeq[k]; Get copies the *)
(*           ADDRESS (shallow copy sharing the codon slices); Reweight       *)
(*           writes through the address; the other operations allocate.      *)
(*           With DeepCopyGet = TRUE, Get allocates a copy: the repaired     *)
(*           design, on which Pristine and Independence hold.                *)
(*                                                                           *)
(* file is the one JSON file of the session: Save writes a handle's table to  *)
(* it (WriteCodonJSON), Load reads it into a fresh table (ReadCodonJSON);     *)
(* what Load yields is what the LAST Save wrote, whatever was loaded or       *)
(* re-weighted in between.  Roundtrip is serialise + parse in memory.         *)
(*                                                                           *)
(* Reweight replaces its receiver (h = h.OptimizeTable(s)), so no handle     *)
(* ever denotes a stale receiver; t is the slot that receives a result.      *)
EXTENDS CodonTables, Sequences, SequencesExt
CONSTANTS Ids08, H, DeepCopyGet
VARIABLES heap, hA, hI, touched, file
svars == <<heap, hA, hI, touched, file>>
None == [live |-> FALSE]
IdSeq == SetToSeq(Ids08)
StoreAddr(i) == CHOOSE k \in 1..Len(IdSeq) : IdSeq[k] = i
Handles == 0..H-1
Live(h) == hA[h].live

SInit == /\ heap = [k \in 1..Len(IdSeq) |-> Ones]
         /\ hA = [h \in Handles |-> None] /\ hI = [h \in Handles |-> None]
         /\ touched = {} /\ file = [has |-> FALSE]

(* a new process / restored defaults: used by trace validation between recorded histories *)
SReset == /\ heap' = [k \in 1..Len(IdSeq) |-> Ones]
          /\ hA' = [h \in Handles |-> None] /\ hI' = [h \in Handles |-> None]
          /\ touched' = {} /\ file' = [has |-> FALSE]

Alloc(v) == Append(heap, v)
NewAddr == Len(heap) + 1

GetA(i, t) ==
    /\ IF DeepCopyGet
       THEN heap' = Alloc(heap[StoreAddr(i)]) /\ hA' = [hA EXCEPT ![t] = [live |-> TRUE, addr |-> NewAddr, code |-> i]]
       ELSE heap' = heap /\ hA' = [hA EXCEPT ![t] = [live |-> TRUE, addr |-> StoreAddr(i), code |-> i]]
    /\ hI' = [hI EXCEPT ![t] = [live |-> TRUE, v |-> Ones, tol |-> 0, code |-> i]]
    /\ UNCHANGED <<touched, file>>
ReweightA(h, cnt) ==
    /\ Live(h)
    /\ heap' = [heap EXCEPT ![hA[h].addr] = cnt]
    /\ hI' = [hI EXCEPT ![h] = [live |-> TRUE, v |-> cnt, tol |-> 0, code |-> hI[h].code]]
    /\ touched' = touched \cup {hA[h].code}
    /\ UNCHANGED <<hA, file>>
AddA(h1, h2, t) ==
    /\ Live(h1) /\ Live(h2) /\ hA[h1].code = hA[h2].code
    /\ heap' = Alloc(AddW(heap[hA[h1].addr], heap[hA[h2].addr]))
    /\ hA' = [hA EXCEPT ![t] = [live |-> TRUE, addr |-> NewAddr, code |-> hA[h1].code]]
    /\ hI' = [hI EXCEPT ![t] = [live |-> TRUE, v |-> AddW(hI[h1].v, hI[h2].v), tol |-> hI[h1].tol + hI[h2].tol, code |-> hI[h1].code]]
    /\ UNCHANGED <<touched, file>>
(* operands that are inexact or partly unconstrained give an unconstrained result *)
CompOf(id, a, b, tola, tolb, cut) == IF tola # 0 \/ tolb # 0 \/ HasWild(a) \/ HasWild(b) THEN AllWild ELSE CompW(id, a, b, cut)
CompromiseA(h1, h2, cut, t) ==
    /\ Live(h1) /\ Live(h2) /\ hA[h1].code = hA[h2].code
    /\ LET id == hA[h1].code IN
       /\ heap' = Alloc(CompOf(id, heap[hA[h1].addr], heap[hA[h2].addr], hI[h1].tol, hI[h2].tol, cut))
       /\ hA' = [hA EXCEPT ![t] = [live |-> TRUE, addr |-> NewAddr, code |-> id]]
       /\ hI' = [hI EXCEPT ![t] = [live |-> TRUE, v |-> CompOf(id, hI[h1].v, hI[h2].v, hI[h1].tol, hI[h2].tol, cut), tol |-> 1, code |-> id]]
    /\ UNCHANGED <<touched, file>>
RoundtripA(h, t) ==
    /\ Live(h)
    /\ heap' = Alloc(heap[hA[h].addr])
    /\ hA' = [hA EXCEPT ![t] = [live |-> TRUE, addr |-> NewAddr, code |-> hA[h].code]]
    /\ hI' = [hI EXCEPT ![t] = hI[h]]
    /\ UNCHANGED <<touched, file>>
SaveA(h) ==
    /\ Live(h)
    /\ file' = [has |-> TRUE, ab |-> heap[hA[h].addr], v |-> hI[h].v, tol |-> hI[h].tol, code |-> hA[h].code]
    /\ UNCHANGED <<heap, hA, hI, touched>>
LoadA(t) ==
    /\ file.has
    /\ heap' = Alloc(file.ab)
    /\ hA' = [hA EXCEPT ![t] = [live |-> TRUE, addr |-> NewAddr, code |-> file.code]]
    /\ hI' = [hI EXCEPT ![t] = [live |-> TRUE, v |-> file.v, tol |-> file.tol, code |-> file.code]]
    /\ UNCHANGED <<touched, file>>
(* concurrent re-weighting of default tables with pairwise different ids: the *)
(* design-level interleaving model is C08_Conc; at session level its outcome  *)
(* is the parallel composition of the individual Reweights                    *)
ConcReweightA(ids, cnts) ==      \* ids: sequence of distinct ids, cnts: sequence of count vectors
    /\ heap' = [k \in 1..Len(heap) |-> IF \E j \in 1..Len(ids) : StoreAddr(ids[j]) = k /\ ~DeepCopyGet
                                       THEN cnts[CHOOSE j \in 1..Len(ids) : StoreAddr(ids[j]) = k] ELSE heap[k]]
    /\ touched' = touched \cup {ids[j] : j \in 1..Len(ids)}
    /\ UNCHANGED <<hA, hI, file>>

(* ---- properties ---- *)
(* holds on the as-built machine: an operation on a table of one id never changes the default table of another id *)
NoCrossId == \A i \in Ids08 : i \notin touched => heap[StoreAddr(i)] = Ones
(* genetic code and shape never change *)
CodePreserved == \A h \in Handles : Live(h) => hA[h].code = hI[h].code /\ DOMAIN heap[hA[h].addr] = Codons
(* the two clauses the as-built machine VIOLATES (they hold iff DeepCopyGet) *)
Pristine == \A i \in Ids08 : heap[StoreAddr(i)] = Ones
Independence == \A h \in Handles : Live(h) => Matches(heap[hA[h].addr], hI[h].v, hI[h].tol)
=============================================================================
