----------------------------- MODULE C14_Trace -----------------------------
(* I->S for C14: recorded runs of gff.Build / gff.Write followed by         *)
(* gff.Parse / gff.Read on generated annotated sequences.                   *)
(*  [rec, lines, parsed, panic]                                             *)
(*     rec: the abstract record the harness assembled (attributes sorted by *)
(*     key), lines: the text gff.Build produced, parsed: the projection of  *)
(*     gff.Parse(that text) incl. each feature's GetSequence().             *)
(*  (i)  the specification's independent reader must recover rec from the   *)
(*       written lines; (ii) the parsed projection must equal Expected(rec).*)
EXTENDS GffFormat, Sequences, Json, CSV, IOUtils
Trace == ndJsonDeserialize(IOEnv.TRACEFILE)
VARIABLES l
Pairs(q) == [i \in 1..Len(q) |-> <<q[i][1], q[i][2]>>]
NormRec(r) == [name |-> r.name, rstart |-> r.rstart, rend |-> r.rend, seq |-> r.seq,
               feats |-> [i \in 1..Len(r.feats) |-> [seqid |-> r.feats[i].seqid, source |-> r.feats[i].source, type |-> r.feats[i].type,
                                                     s |-> r.feats[i].s, e |-> r.feats[i].e, score |-> r.feats[i].score,
                                                     strand |-> r.feats[i].strand, phase |-> r.feats[i].phase, attrs |-> Pairs(r.feats[i].attrs)]]]
NormParsed(p) == [name |-> p.name, rstart |-> p.rstart, rend |-> p.rend, seq |-> p.seq,
                  feats |-> [i \in 1..Len(p.feats) |-> [seqid |-> p.feats[i].seqid, source |-> p.feats[i].source, type |-> p.feats[i].type,
                                                        start |-> p.feats[i].start, end |-> p.feats[i].end, score |-> p.feats[i].score,
                                                        strand |-> p.feats[i].strand, phase |-> p.feats[i].phase,
                                                        attrs |-> AttrSet(Pairs(p.feats[i].attrs)), bases |-> p.feats[i].bases]]]
Judge(e) ==
    IF e.panic # "" THEN "gff.Parse / gff.Build panicked: " \o e.panic
    ELSE LET rec == NormRec(e.rec) IN
    IF ~WellFormed(e.lines) THEN "gff.Build output lacks the version / sequence-region header or the ##FASTA section"
    ELSE IF Read(e.lines) # rec THEN "an independent GFF3 reader does not recover the record from gff.Build's output"
    ELSE IF NormParsed(e.parsed) # Expected(rec) THEN "gff.Parse(gff.Build(x)) differs from x (fields, 0-based/1-based coordinates, or a feature's bases)"
    ELSE "ok"
Init == l = 1
Next == /\ l <= Len(Trace)
        /\ LET r == Judge(Trace[l]) IN
             CSVWrite("%1$s", <<ToJson([l |-> l, v |-> IF r = "ok" THEN "ok" ELSE "bad", why |-> r])>>, IOEnv.VERDICTFILE)
        /\ l' = l + 1
Spec == Init /\ [][Next]_l
Accepted == TLCGet("stats").diameter - 1 = Len(Trace)
============================================================================
