------------------------------ MODULE Barcodes ------------------------------
(* De Bruijn sequences and barcode lists cut from them (C17).                *)
(*   IsDeBruijn(s, n)   s has length 4^n + n - 1 and contains every n-letter *)
(*                      word over A,T,G,C exactly once                       *)
(*   ListOK(...)        the clauses of the property for a barcode list       *)
(*   Attempt / Shifted  a transcription of the selection loop of             *)
(*                      CreateBarcodesWithBannedSequences: windows of length *)
(*                      L at stride L-(n-1); a window holding a banned word, *)
(*                      the reverse complement of one, or rejected by a      *)
(*                      filter is slid forward one base at a time.           *)
(*                      Fixpoint = TRUE  re-checks all bans and filters      *)
(*                      after every slide (the repaired loop);               *)
(*                      Fixpoint = FALSE checks each ban / filter once, in   *)
(*                      order (the loop as first built: sliding past one     *)
(*                      word can re-admit an earlier one).                   *)
EXTENDS Nucleotides, Integers
Pow4(n) == IF n = 0 THEN 1 ELSE IF n = 1 THEN 4 ELSE IF n = 2 THEN 16 ELSE IF n = 3 THEN 64 ELSE IF n = 4 THEN 256
           ELSE IF n = 5 THEN 1024 ELSE IF n = 6 THEN 4096 ELSE IF n = 7 THEN 16384 ELSE IF n = 8 THEN 65536
           ELSE IF n = 9 THEN 262144 ELSE IF n = 10 THEN 1048576 ELSE 4194304
Windows(s, n) == {SubSeq(s, i, i + n - 1) : i \in 1..Len(s) - n + 1}
IsDeBruijn(s, n) == /\ Len(s) = Pow4(n) + n - 1
                    /\ Cardinality(Windows(s, n)) = Pow4(n)              \* 4^n windows, all different
                    /\ \A i \in 1..Len(s) : SubSeq(s, i, i) \in {"A", "T", "G", "C"}

HasWord(b, w) == \E i \in 1..Len(b) - Len(w) + 1 : SubSeq(b, i, i + Len(w) - 1) = w
(* filter predicates shared with the replayer (id -> predicate); TRUE = accepted *)
Accept(fid, b) == CASE fid = "noGG"    -> ~HasWord(b, "GG")
                    [] fid = "notA"    -> SubSeq(b, 1, 1) # "A"
                    [] fid = "gcMax"   -> 2 * Cardinality({i \in 1..Len(b) : SubSeq(b, i, i) \in {"G", "C"}}) <= Len(b) + 1
                    [] fid = "noHomo3" -> ~(HasWord(b, "AAA") \/ HasWord(b, "TTT") \/ HasWord(b, "GGG") \/ HasWord(b, "CCC"))
Clean(b, bans, filters) == /\ \A w \in bans : ~HasWord(b, w) /\ ~HasWord(b, RC(w))
                           /\ \A f \in filters : Accept(f, b)
(* idx[i] = 0-based offset of barcode i in the De Bruijn sequence db of order n *)
ListOK(db, n, L, bans, filters, list, idx) ==
    /\ Len(idx) = Len(list)
    /\ \A i \in 1..Len(list) : /\ Len(list[i]) = L
                               /\ idx[i] >= 0 /\ idx[i] + L <= Len(db) /\ SubSeq(db, idx[i] + 1, idx[i] + L) = list[i]
                               /\ Clean(list[i], bans, filters)
    (* every n-letter word occurs once in db, so two barcodes share one iff their window ranges overlap *)
    (* (stated for neighbours in list order, which implies it for all pairs: offsets increase)          *)
    /\ \A i \in 1..Len(list) - 1 : idx[i] + L - n < idx[i + 1]
SharesWord(a, b, n) == Windows(a, n) \cap Windows(b, n) # {}

(* ---- the selection loop ---- *)
(* one pass over the bans (each: slide while it occurs, then while its reverse complement occurs) and the filters *)
(* a step is [kind, w]: slide while the window holds banned word w ("ban"), its reverse complement ("rc"), *)
(* or is rejected by filter w ("filter")                                                                    *)
BadFor(st, b) == CASE st.kind = "ban" -> HasWord(b, st.w) [] st.kind = "rc" -> HasWord(b, RC(st.w)) [] st.kind = "filter" -> ~Accept(st.w, b)
RECURSIVE SlideWhile(_, _, _, _)
SlideWhile(db, L, s, st) ==          \* returns the new start, or -1 when the window runs off the end
    IF ~BadFor(st, SubSeq(db, s + 1, s + L)) THEN s
    ELSE IF s + L + 1 > Len(db) THEN -1 ELSE SlideWhile(db, L, s + 1, st)
RECURSIVE OnePass(_, _, _, _, _)
OnePass(db, L, s, steps, k) ==
    IF s = -1 \/ k > Len(steps) THEN s
    ELSE OnePass(db, L, SlideWhile(db, L, s, steps[k]), steps, k + 1)
RECURSIVE Settle(_, _, _, _, _)
Settle(db, L, s, steps, fixpoint) ==
    LET s1 == OnePass(db, L, s, steps, 1) IN
    IF s1 = -1 \/ ~fixpoint \/ s1 = s THEN s1 ELSE Settle(db, L, s1, steps, fixpoint)
=============================================================================
