------------------------------ MODULE C13_MC ------------------------------
(* C13: the streaming FASTA parser as a state machine, for every file of up *)
(* to MaxLines lines over the four line classes, every channel capacity in  *)
(* Caps and every interleaving of the producer with a stalling consumer.    *)
(* Line i of a file is "h"/"s"/"b"/"c" (header / sequence / blank / comment)*)
(* its text is derived from its index, so that records are distinguishable. *)
(* At termination an S->I case (the file and the records it states) is      *)
(* emitted; the replayer lays it out as real FASTA text in several ways.    *)
EXTENDS FastaStream, Sequences, Json, CSV, IOUtils
CONSTANTS MaxLines, Caps
VARIABLES file, cap, pc, i, name, acc, started, chan, closed, closes, got, cdone
vars == <<file, cap, pc, i, name, acc, started, chan, closed, closes, got, cdone>>

LineText(k, c) == CASE c = "h" -> ">n" \o ToString(k) [] c = "s" -> "S" \o ToString(k) [] c = "b" -> "" [] c = "c" -> ";c" \o ToString(k)
Text(f) == [k \in 1..Len(f) |-> LineText(k, f[k])]
Files == UNION {[1..n -> {"h", "s", "b", "c"}] : n \in 1..MaxLines}
Init == /\ file \in {f \in Files : InDomain(Text(f))} /\ cap \in Caps
        /\ pc = "scan" /\ i = 1 /\ name = "" /\ acc = <<>> /\ started = FALSE
        /\ chan = <<>> /\ closed = FALSE /\ closes = 0 /\ got = <<>> /\ cdone = FALSE
Rec == [name |-> name, seq |-> Join(acc)]
(* producer: one scanner step per line; a header after the first one first hands the finished record to the channel *)
Scan == /\ pc = "scan" /\ i <= Len(file)
        /\ LET line == Text(file)[i] c == Class(line) IN
           CASE c = "blank" \/ c = "comment" -> i' = i + 1 /\ UNCHANGED <<pc, name, acc, started>>
             [] c = "seq" -> acc' = Append(acc, line) /\ i' = i + 1 /\ UNCHANGED <<pc, name, started>>
             [] c = "header" /\ ~started -> name' = SubSeq(line, 2, Len(line)) /\ started' = TRUE /\ i' = i + 1 /\ UNCHANGED <<pc, acc>>
             [] c = "header" /\ started -> pc' = "send" /\ UNCHANGED <<i, name, acc, started>>
        /\ UNCHANGED <<file, cap, chan, closed, closes, got, cdone>>
Eof == /\ pc = "scan" /\ i > Len(file) /\ pc' = "sendlast" /\ UNCHANGED <<file, cap, i, name, acc, started, chan, closed, closes, got, cdone>>
AfterSend == IF pc = "send"
             THEN /\ pc' = "scan" /\ acc' = <<>> /\ name' = SubSeq(Text(file)[i], 2, Len(Text(file)[i])) /\ i' = i + 1 /\ UNCHANGED started
             ELSE /\ pc' = "close" /\ UNCHANGED <<i, name, acc, started>>
(* buffered send (capacity > 0) *)
SendBuf == /\ pc \in {"send", "sendlast"} /\ cap > 0 /\ Len(chan) < cap /\ ~closed
           /\ chan' = Append(chan, Rec)
           /\ AfterSend
           /\ UNCHANGED <<file, cap, closed, closes, got, cdone>>
(* rendezvous send (capacity 0): completes only together with a receive *)
SendRv == /\ pc \in {"send", "sendlast"} /\ cap = 0 /\ ~closed /\ ~cdone
          /\ got' = Append(got, Rec)
          /\ AfterSend
          /\ UNCHANGED <<file, cap, chan, closed, closes, cdone>>
Close == /\ pc = "close" /\ closed' = TRUE /\ closes' = closes + 1 /\ pc' = "done"
         /\ UNCHANGED <<file, cap, i, name, acc, started, chan, got, cdone>>
(* consumer: receive from a non-empty buffer, or observe the closed and drained channel; stalling = not acting *)
Recv == /\ ~cdone /\ chan # <<>> /\ got' = Append(got, Head(chan)) /\ chan' = Tail(chan)
        /\ UNCHANGED <<file, cap, pc, i, name, acc, started, closed, closes, cdone>>
SeeClosed == /\ ~cdone /\ closed /\ chan = <<>> /\ cdone' = TRUE
             /\ UNCHANGED <<file, cap, pc, i, name, acc, started, chan, closed, closes, got>>
Next == Scan \/ Eof \/ SendBuf \/ SendRv \/ Close \/ Recv \/ SeeClosed
Spec == Init /\ [][Next]_vars /\ WF_vars(Next)

Delivered == cdone => got = Records(Text(file))
Prefix == \A k \in 1..Len(got) : k <= Len(Records(Text(file))) /\ got[k] = Records(Text(file))[k]
ClosedOnce == closes <= 1 /\ (cdone => closes = 1)
NoSendAfterClose == closed => pc = "done"
Termination == <>cdone
Emit == (cdone /\ cap = 0) => CSVWrite("%1$s", <<ToJson([lines |-> Text(file), records |-> Records(Text(file))])>>, IOEnv.OUTFILE)
===========================================================================
