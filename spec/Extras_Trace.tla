---------------------------- MODULE Extras_Trace ----------------------------
(* Behaviour of poly beyond the listed properties, specified and validated   *)
(* the same way (recorded calls judged by TLC).  These calls feed the codon  *)
(* pipeline of C07 / C08 and are run with the C07 check.                     *)
(*  [k|->"coding", parent, feats, got]                                       *)
(*     codon.GetCodingRegions: the concatenation, in feature order, of the   *)
(*     sequences of the features whose key is CDS (PolyJson!StructBases of   *)
(*     each location); feats: sequence of [type, loc (Location!Node form)]   *)
(*  [k|->"randprot", len, seed, p, err, again]                               *)
(*     random.ProteinSequence: lengths <= 2 are rejected; otherwise exactly  *)
(*     len letters, M first, * last, the rest from the generator's 20-letter *)
(*     alphabet; the same seed gives the same protein (again = second call)  *)
(*  [k|->"codonjson", id, w, json, back]                                     *)
(*     codon.WriteCodonJSON / ReadCodonJSON: the JSON text (read here by     *)
(*     TLC's Json module) holds start_codons, stop_codons and amino_acids    *)
(*     [letter, codons [triplet, weight]] with the table's assignment and    *)
(*     weights w; reading it back gives the same table                       *)
(*  [k|->"cliconvert", o, inputs, paths, after]   `poly convert -o o inputs` run in a scratch directory *)
(*     after[i] says what paths[i] holds afterwards (see Cli!ConvertOK)                                  *)
(*  [k|->"clihash", inputs, lines, libhash]        `poly hash inputs`: lines = [hash, path] pairs       *)
(*  [k|->"clipipe", what, same]                    pipe mode output equals the composition of the       *)
(*     library calls the command stands for                                                             *)
(*  [k|->"variantserr", s, err]                  variants.AllVariantsIUPAC on a string with a letter    *)
(*     that is no IUPAC nucleotide code (outside the domain of C11): an error, wherever the letter is    *)
EXTENDS PolyJson, CodonTables, Cli, Sequences, Json, CSV, IOUtils
Trace == ndJsonDeserialize(IOEnv.TRACEFILE)
VARIABLES l
RandAlphabet == {SubSeq("ACDEFGHIJLMNPQRSTVWY", i, i) : i \in 1..20}
CDSBases(e) == Join([i \in 1..Len(e.feats) |-> IF e.feats[i].type = "CDS" THEN StructBases(e.feats[i].loc, e.parent) ELSE ""])
FromSparse(sp) == [c \in Codons |-> IF c \in DOMAIN sp.x THEN sp.x[c] ELSE sp.d]
(* the table a codon-table JSON value denotes: codon -> <<letter, weight>>, or "malformed" *)
TableOf(j) == [c \in Codons |->
    LET hits == {<<a, b>> \in (1..Len(j.amino_acids)) \X (1..16) :
                    b <= Len(j.amino_acids[a].codons) /\ j.amino_acids[a].codons[b].triplet = c} IN
    IF Cardinality(hits) # 1 THEN <<"?", -1>>
    ELSE LET h == CHOOSE x \in hits : TRUE IN <<j.amino_acids[h[1]].letter, j.amino_acids[h[1]].codons[h[2]].weight>>]
RangeOf(q) == {q[i] : i \in 1..Len(q)}
Judge(e) ==
    CASE e.k = "coding" -> IF e.got = CDSBases(e) THEN "ok" ELSE "GetCodingRegions is not the concatenation of the CDS features' sequences in order"
      [] e.k = "randprot" ->
           IF e.len <= 2 THEN (IF e.err THEN "ok" ELSE "a random protein of length <= 2 must be rejected")
           ELSE IF e.err THEN "a random protein of length > 2 was rejected"
           ELSE IF Len(e.p) # e.len \/ SubSeq(e.p, 1, 1) # "M" \/ SubSeq(e.p, e.len, e.len) # "*" THEN "random protein does not have the requested length with M first and * last"
           ELSE IF \E i \in 2..e.len - 1 : SubSeq(e.p, i, i) \notin RandAlphabet THEN "random protein uses a letter outside the generator's alphabet"
           ELSE IF e.again # e.p THEN "the same seed gave two different proteins"
           ELSE "ok"
      [] e.k = "cliconvert" ->
           IF ConvertOK(RangeOf(e.paths), RangeOf(e.inputs), e.o, [q \in RangeOf(e.paths) |-> e.after[CHOOSE i \in 1..Len(e.paths) : e.paths[i] = q]])
           THEN "ok" ELSE "poly convert: an output file is missing, holds something else than the conversion of its input, or another file was touched"
      [] e.k = "clihash" ->
           IF {<<e.lines[i][2], e.lines[i][1]>> : i \in 1..Len(e.lines)} = {<<e.inputs[i], e.libhash[i]>> : i \in 1..Len(e.inputs)} /\ Len(e.lines) = Len(e.inputs)
           THEN "ok" ELSE "poly hash: not exactly one '<seqhash>  <path>' line per input file"
      [] e.k = "variantserr" ->
            IF (\E i \in 1..Len(e.s) : UpC(SubSeq(e.s, i, i)) \notin Codes) /\ ~e.err
            THEN "AllVariantsIUPAC accepts a letter that is not an IUPAC nucleotide code" ELSE "ok"
      [] e.k = "clipipe" -> IF e.same THEN "ok" ELSE "poly " \o e.what \o " (pipe mode) differs from the composition of the library calls"
      [] e.k = "codonjson" ->
           LET want == [c \in Codons |-> <<Code[e.id][c], FromSparse(e.w)[c]>>] IN
           IF TableOf(e.json) # want \/ RangeOf(e.json.start_codons) # Starts[e.id] \/ RangeOf(e.json.stop_codons) # Stops[e.id]
              THEN "the codon-table JSON does not hold the table's assignment, weights and start/stop codons under the published keys"
           ELSE IF TableOf(e.back) # want \/ RangeOf(e.back.start_codons) # Starts[e.id] \/ RangeOf(e.back.stop_codons) # Stops[e.id]
              THEN "reading the codon-table JSON back gives a different table"
           ELSE "ok"
Init == l = 1
Next == /\ l <= Len(Trace)
        /\ LET r == Judge(Trace[l]) IN
             CSVWrite("%1$s", <<ToJson([l |-> l, v |-> IF r = "ok" THEN "ok" ELSE "bad", why |-> r])>>, IOEnv.VERDICTFILE)
        /\ l' = l + 1
Spec == Init /\ [][Next]_l
Accepted == TLCGet("stats").diameter - 1 = Len(Trace)
=============================================================================
