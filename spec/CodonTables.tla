---------------------------- MODULE CodonTables ----------------------------
(* Codon usage tables: value layer (used by C07, C08, C18).                 *)
(*                                                                          *)
(* A weight vector is a function Codons -> Int.  A table is a genetic-code  *)
(* id plus a weight vector; its codon -> amino-acid assignment is           *)
(* GeneticCode!Code[id] and is never changed by any operation.              *)
(*   Ones            the weights of a freshly requested default table       *)
(*   Count(s)        in-frame, case-insensitive triplet counts of s         *)
(*   AddW            pointwise sum                                          *)
(*   Total / Share   per-amino-acid usage share on the 10000 scale (floor)  *)
(*   CompW           compromise: mean of the two shares, 0 below the cut-off*)
(*   Eligible        codons Optimize may emit: share > 10 %, weight > 0     *)
(* Wild (-1) marks a cell the specification leaves unconstrained (share of  *)
(* an amino acid whose total weight is 0).                                  *)
EXTENDS GeneticCode, FiniteSetsExt, Integers

Wild == -1
Ones == [c \in Codons |-> 1]
Zeros == [c \in Codons |-> 0]
(* NOTE for TLC: pass a named constant or a bound value as s - an argument expression is re-evaluated on
   every application of the resulting function *)
Count(s) == [c \in Codons |-> Cardinality({i \in 1..(Len(s) \div 3) : UpCodonAt(s, i) = c})]
AddW(a, b) == TLCEval([c \in Codons |-> IF a[c] = Wild \/ b[c] = Wild THEN Wild ELSE a[c] + b[c]])
HasWild(w) == \E c \in Codons : w[c] = Wild

Total(id, w, aa) == FoldSet(LAMBDA c, acc : acc + w[c], 0, CodonsOf(id, aa))
ShareOf(id, w, c) == (10000 * w[c]) \div Total(id, w, Code[id][c])      \* only when the total is > 0

(* cut is the cut-off on the 10000 scale.  Nominal value (floor arithmetic); a cell is  *)
(* Wild when the property leaves it open: an amino acid with total weight 0, or a share *)
(* within 1 of a non-zero cut-off (the +/-1 rounding slack could flip the zeroing).     *)
CompW(id, a, b, cut) ==
    TLCEval([c \in Codons |->
        LET ta == Total(id, a, Code[id][c]) tb == Total(id, b, Code[id][c]) IN
        IF ta = 0 \/ tb = 0 THEN Wild
        ELSE LET sa == ShareOf(id, a, c) sb == ShareOf(id, b, c) IN
             IF sa < cut - 1 \/ sb < cut - 1 THEN 0                          \* clearly below in one organism
             ELSE IF cut # 0 /\ (sa <= cut + 1 \/ sb <= cut + 1) THEN Wild  \* within the rounding slack of the cut-off
             ELSE (sa + sb) \div 2])
AllWild == [c \in Codons |-> Wild]

(* acceptance of an observed vector against a nominal one with tolerance tol *)
Abs(x) == IF x < 0 THEN -x ELSE x
Matches(obs, nom, tol) == \A c \in Codons : nom[c] = Wild \/ Abs(obs[c] - nom[c]) <= tol

(* codons the optimiser may emit for amino acid aa: strictly more than 10 % of the total, and > 0 *)
Eligible(id, w, aa) == {c \in CodonsOf(id, aa) : w[c] > 0 /\ 10 * w[c] > Total(id, w, aa)}

(* sparse JSON form of a vector: default value d and the exceptions x *)
Sparse(v) == LET d == IF Cardinality({c \in Codons : v[c] = 0}) >= 32 THEN 0 ELSE 1 IN
             [d |-> d, x |-> [c \in {c \in Codons : v[c] # d} |-> v[c]]]
=============================================================================
