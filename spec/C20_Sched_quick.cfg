CONSTANTS MaxK = 2
MaxCap = 1
Mode = "closefirst"
SPECIFICATION SpecS
INVARIANTS InOrder Outcome NoSendOnClosed EmitS
PROPERTY Termination
CHECK_DEADLOCK FALSE
