CONSTANTS P = 5
MaxOps = 2
Parent1 = "AGGTC"
SPECIFICATION Spec
INVARIANTS Check
CHECK_DEADLOCK FALSE
