CONSTANTS K = 2
N = 12
TheoremN = 8
SPECIFICATION Spec
INVARIANTS Emit FastAgrees IsRotation Minimal OneCanonical
CHECK_DEADLOCK FALSE
