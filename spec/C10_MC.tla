------------------------------ MODULE C10_MC ------------------------------
(* C10: exhaustive call/return model of clone.CutWithEnzyme (directional)   *)
(* with a small custom non-palindromic enzyme.  One state per A/C/G/T       *)
(* string up to length N; every in-domain string is emitted as an S->I case *)
(* both as a linear and as a circular part (so every rotation of every      *)
(* plasmid is its own case).  RotationInvariant is the theorem that the     *)
(* definition does not depend on the stored origin.                         *)
EXTENDS Digest, Json, CSV, IOUtils, SequencesExt
CONSTANTS EnzymeName, N, TheoremN
Enzyme == CASE EnzymeName = "e1" -> [site |-> "GT", rsite |-> "AC", skip |-> 0, ovh |-> 1]
            [] EnzymeName = "e2" -> [site |-> "GA", rsite |-> "TC", skip |-> 1, ovh |-> 1]
            [] EnzymeName = "e4" -> [site |-> "GAC", rsite |-> "GTC", skip |-> 1, ovh |-> 1]   \* odd length, palindromic flanks
            [] EnzymeName = "e3" -> [site |-> "GGT", rsite |-> "ACC", skip |-> 1, ovh |-> 2]
VARIABLE s
Init == s = ""
Next == \E c \in {"A", "C", "G", "T"} : Len(s) < N /\ s' = s \o c
Spec == Init /\ [][Next]_s

Frs(circ) == SetToSeq(Fragments(s, circ, Enzyme))
Dropped(circ) == SetToSeq({f \in Fragments(s, circ, Enzyme) : DroppedAsBuilt(s, circ, Enzyme, f)})
CaseFor(circ) == [circ |-> circ, indomain |-> InDomain(s, circ, Enzyme),
                  frags |-> IF InDomain(s, circ, Enzyme) THEN Frs(circ) ELSE <<>>,
                  dropped |-> IF InDomain(s, circ, Enzyme) THEN Dropped(circ) ELSE <<>>]
Emit == (Len(s) >= 1 /\ (InDomain(s, TRUE, Enzyme) \/ InDomain(s, FALSE, Enzyme))) =>
           CSVWrite("%1$s", <<ToJson([s |-> s, enzyme |-> Enzyme, cases |-> <<CaseFor(FALSE), CaseFor(TRUE)>>])>>, IOEnv.OUTFILE)

RotOf(x, k) == SubSeq(x \o x, k + 1, k + Len(x))
RotationInvariant == (Len(s) >= 1 /\ Len(s) <= TheoremN /\ InDomain(s, TRUE, Enzyme)) =>
    \A k \in 1..Len(s) - 1 : /\ InDomain(RotOf(s, k), TRUE, Enzyme)
                             /\ BagOf(Fragments(RotOf(s, k), TRUE, Enzyme)) = BagOf(Fragments(s, TRUE, Enzyme))
(* a linear part never yields a fragment needing bases beyond its ends *)
LinearInside == InDomain(s, FALSE, Enzyme) => \A f \in Fragments(s, FALSE, Enzyme) :
                    Len(f.fo) = Enzyme.ovh /\ Len(f.ro) = Enzyme.ovh
===========================================================================
