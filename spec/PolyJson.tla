------------------------------ MODULE PolyJson ------------------------------
(* poly's JSON interchange form for annotated sequences (C15).               *)
(* The key names are those published in poly's struct tags; a feature's      *)
(* parent link is not part of the JSON form; nested locations are under      *)
(* "sub_locations".  Empty and absent collections are the same thing (the    *)
(* replayer reads JSON null as the empty collection).                        *)
(*   JLoc(node)     JSON form of a Location node (Location!Node form)        *)
(*   JFeature(f)    JSON form of a feature                                   *)
(*   JSequence(s)   JSON form of an annotated sequence                       *)
(*   StructBases    the bases a Location node denotes on its parent: the     *)
(*                  re-linking rule is that after reading the JSON every     *)
(*                  feature reports StructBases(location, sequence)          *)
EXTENDS Location
RECURSIVE JLoc(_)
JLoc(n) == [start |-> n.start, end |-> n.end, complement |-> n.complement, join |-> n.join,
            five_prime_partial |-> n.p5, three_prime_partial |-> n.p3,
            sub_locations |-> [i \in 1..Len(n.subs) |-> JLoc(n.subs[i])]]
(* f: [name, source, type, score, strand, phase, attrs (function key -> value), loctext, loc (Node), desc] *)
JFeature(f) == [Name |-> f.name, source |-> f.source, type |-> f.type, score |-> f.score, strand |-> f.strand, phase |-> f.phase,
                attributes |-> f.attrs, gbk_location_string |-> f.loctext, sequence |-> "", sequence_location |-> JLoc(f.loc),
                sequence_hash |-> "", description |-> f.desc, hash_function |-> ""]
JLocus(l) == [name |-> l.name, sequence_length |-> l.len, molecule_type |-> l.mol, genbank_division |-> l.div,
              modification_date |-> l.date, sequence_coding |-> l.coding, circular |-> l.circular, linear |-> l.linear]
JRef(r) == [index |-> r.index, authors |-> r.authors, title |-> r.title, journal |-> r.journal, pub_med |-> r.pubmed, remark |-> r.remark, range |-> r.range]
(* s: [name, gffversion, rstart, rend, size, type, date, definition, accession, version, keywords, organism, source, origin, *)
(*     locus, refs, other (function), description, sequence, features]                                                     *)
JSequence(s) ==
    [meta |-> [name |-> s.name, gff_version |-> s.gffversion, region_start |-> s.rstart, region_end |-> s.rend, size |-> s.size,
               type |-> s.type, date |-> s.date, definition |-> s.definition, accession |-> s.accession, version |-> s.version,
               keywords |-> s.keywords, organism |-> s.organism, source |-> s.source, origin |-> s.origin,
               locus |-> JLocus(s.locus), references |-> [i \in 1..Len(s.refs) |-> JRef(s.refs[i])], other |-> s.other],
     description |-> s.description, sequence_hash |-> "", hash_function |-> "", sequence |-> s.sequence,
     features |-> [i \in 1..Len(s.features) |-> JFeature(s.features[i])]]
RECURSIVE StructBases(_, _)
StructBases(n, parent) ==
    LET raw == IF n.subs = <<>> THEN SubSeq(parent, n.start + 1, n.end)
               ELSE Join([i \in 1..Len(n.subs) |-> StructBases(n.subs[i], parent)]) IN
    IF n.complement THEN RC(raw) ELSE raw
(* every leaf of the node lies on a parent of length n; only then does a feature have bases to report *)
(* (an annotation-only record - a GFF file without its FASTA part - has features and no sequence)     *)
RECURSIVE Resolvable(_, _)
Resolvable(n, len) == IF n.subs = <<>> THEN 0 <= n.start /\ n.start <= n.end /\ n.end <= len
                      ELSE \A i \in 1..Len(n.subs) : Resolvable(n.subs[i], len)
(* the same on the JSON form of a location *)
RECURSIVE JBases(_, _)
JBases(j, parent) ==
    LET raw == IF j.sub_locations = <<>> THEN SubSeq(parent, j.start + 1, j.end)
               ELSE Join([i \in 1..Len(j.sub_locations) |-> JBases(j.sub_locations[i], parent)]) IN
    IF j.complement THEN RC(raw) ELSE raw
=============================================================================
