CONSTANTS EnzymeName = "e3"
N = 10
TheoremN = 6
SPECIFICATION Spec
INVARIANTS Emit RotationInvariant LinearInside
CHECK_DEADLOCK FALSE
