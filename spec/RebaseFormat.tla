----------------------------- MODULE RebaseFormat -----------------------------
(* REBASE "withrefm" (format 31) listings (C16).                               *)
(* Abstract listing                                                            *)
(*   [prose, suppliers, recs]  free header prose (lines without <n> tags and   *)
(*   different from the supplier heading), the supplier table as a sequence of *)
(*   <<letter, name>>, and records [name, iso, site, meth, org, src, comm, ref]*)
(*   (iso: list of isoschizomers, comm: string of supplier letters).           *)
(* Lines(L, indent)   an independent writer; supplier lines are indented with  *)
(*                    `indent` (spaces in the distributed file, or tabs)       *)
(* Read(lines)        an independent reader                                    *)
(* Expected(L)        the map poly must return: per enzyme name its fields     *)
(*                    verbatim and its supplier letters decoded through the    *)
(*                    listing's own table                                      *)
EXTENDS Str, Integers
Heading == "REBASE codes for commercial sources of enzymes"
Tag(n) == "<" \o ToString(n) \o ">"
RecLines(r) == <<Tag(1) \o r.name, Tag(2) \o JoinSep(r.iso, ","), Tag(3) \o r.site, Tag(4) \o r.meth, Tag(5) \o r.org,
                 Tag(6) \o r.src, Tag(7) \o r.comm, Tag(8) \o r.ref, "">>
RECURSIVE Flatten(_, _)
Flatten(q, i) == IF i > Len(q) THEN <<>> ELSE q[i] \o Flatten(q, i + 1)
Lines(L, indent) ==
    L.prose \o <<Heading, "">>
    \o [i \in 1..Len(L.suppliers) |-> indent \o L.suppliers[i][1] \o "        " \o L.suppliers[i][2]]
    \o <<"">> \o Flatten([i \in 1..Len(L.recs) |-> RecLines(L.recs[i])], 1)

(* ---- reader ---- *)
TrimLeft(s) == LET k == CHOOSE j \in 1..Len(s) + 1 : (j = Len(s) + 1 \/ SubSeq(s, j, j) \notin {" ", "\t"}) /\ \A i \in 1..j - 1 : SubSeq(s, i, i) \in {" ", "\t"}
               IN SubSeq(s, k, Len(s))
HeadingAt(lines) == CHOOSE i \in 1..Len(lines) : lines[i] = Heading
FirstRec(lines) == IF \E i \in 1..Len(lines) : StartsWith(lines[i], Tag(1))
                   THEN CHOOSE i \in 1..Len(lines) : StartsWith(lines[i], Tag(1)) /\ \A j \in 1..i - 1 : ~StartsWith(lines[j], Tag(1))
                   ELSE Len(lines) + 1
SupplierTable(lines) ==
    LET h == HeadingAt(lines)
        body == SelectSeq(SubSeq(lines, h + 1, FirstRec(lines) - 1), LAMBDA x : TrimLeft(x) # "") IN
    [i \in 1..Len(body) |-> LET t == TrimLeft(body[i]) IN <<SubSeq(t, 1, 1), TrimLeft(SubSeq(t, 2, Len(t)))>>]
RecStarts(lines) == SelectSeq([i \in 1..Len(lines) |-> i], LAMBDA i : StartsWith(lines[i], Tag(1)))
Field(lines, from, to, n) == LET idx == {i \in from..to : StartsWith(lines[i], Tag(n))} IN
                             IF idx = {} THEN "" ELSE LET i == CHOOSE j \in idx : \A m \in idx : j <= m IN SubSeq(lines[i], 4, Len(lines[i]))
ReadRecs(lines) ==
    LET st == RecStarts(lines) IN
    [k \in 1..Len(st) |->
        LET from == st[k] to == IF k < Len(st) THEN st[k + 1] - 1 ELSE Len(lines) IN
        [name |-> Field(lines, from, to, 1), iso |-> SplitStr(Field(lines, from, to, 2), ","), site |-> Field(lines, from, to, 3),
         meth |-> Field(lines, from, to, 4), org |-> Field(lines, from, to, 5), src |-> Field(lines, from, to, 6),
         comm |-> Field(lines, from, to, 7), ref |-> Field(lines, from, to, 8)]]
Read(lines) == [suppliers |-> SupplierTable(lines), recs |-> ReadRecs(lines)]

(* ---- what poly must return ---- *)
SupplierName(suppliers, letter) == IF \E i \in 1..Len(suppliers) : suppliers[i][1] = letter
                                   THEN suppliers[CHOOSE i \in 1..Len(suppliers) : suppliers[i][1] = letter][2] ELSE ""
ExpectedRec(suppliers, r) == [name |-> r.name, isoschizomers |-> r.iso, recognitionSequence |-> r.site, methylationSite |-> r.meth,
                              microorganism |-> r.org, source |-> r.src,
                              commercialAvailability |-> [i \in 1..Len(r.comm) |-> SupplierName(suppliers, SubSeq(r.comm, i, i))],
                              references |-> r.ref]
(* the last record of a name wins (the map is keyed by enzyme name) *)
Expected(L) == LET names == {L.recs[i].name : i \in 1..Len(L.recs)} IN
               [n \in names |-> ExpectedRec(L.suppliers, L.recs[CHOOSE i \in 1..Len(L.recs) : L.recs[i].name = n /\ \A j \in i + 1..Len(L.recs) : L.recs[j].name # n])]
===============================================================================
