CONSTANTS MaxK = 2
MaxCap = 1
Mode = "asbuilt"
SPECIFICATION Spec
INVARIANTS InOrder Outcome NoSendOnClosed
PROPERTY Termination
CHECK_DEADLOCK FALSE
