CONSTANTS MaxK = 2
MaxCap = 1
Mode = "breakonly"
SPECIFICATION Spec
INVARIANTS InOrder Outcome NoSendOnClosed
PROPERTY Termination
CHECK_DEADLOCK FALSE
