------------------------------ MODULE Location ------------------------------
(* INSDC feature locations (C02, used by C01/C03/C15).                       *)
(*                                                                           *)
(* AST                                                                       *)
(*   [t |-> "span", a, b, p5, p3]   bases a..b (1-based, inclusive), partial *)
(*                                  markers at the 5' / 3' end               *)
(*   [t |-> "single", n]            the single base n                        *)
(*   [t |-> "join", xs]             operands in order (at least two)         *)
(*   [t |-> "compl", x]             reverse complement of the operand        *)
(* BasesOf(loc, parent)  the denotation (INSDC feature table, section 3.4)     *)
(* PrintLoc(loc)          INSDC text                                            *)
(* Parse(text, lax)    recursive-descent recogniser of the INSDC grammar;    *)
(*                     lax = TRUE additionally accepts the non-standard      *)
(*                     spelling a..b> of a 3'-partial span (deviation        *)
(*                     C02-three-prime-partial-suffix of poly's writer)      *)
(* Struct(loc)         poly's Location tree for the AST                      *)
EXTENDS Nucleotides, Integers

Span(a, b, p5, p3) == [t |-> "span", a |-> a, b |-> b, p5 |-> p5, p3 |-> p3]
Single(n) == [t |-> "single", n |-> n]
Join2(x, y) == [t |-> "join", xs |-> <<x, y>>]
JoinN(xs) == [t |-> "join", xs |-> xs]
Compl(x) == [t |-> "compl", x |-> x]

RECURSIVE BasesOf(_, _)
BasesOf(loc, parent) ==
    CASE loc.t = "span"   -> SubSeq(parent, loc.a, loc.b)
      [] loc.t = "single" -> SubSeq(parent, loc.n, loc.n)
      [] loc.t = "join"   -> Join([i \in 1..Len(loc.xs) |-> BasesOf(loc.xs[i], parent)])
      [] loc.t = "compl"  -> RC(BasesOf(loc.x, parent))
RECURSIVE NumOps(_)
NumOps(loc) == CASE loc.t \in {"span", "single"} -> 0
                 [] loc.t = "compl" -> 1 + NumOps(loc.x)
                 [] loc.t = "join" -> 1 + NumOps(loc.xs[1]) + NumOps(loc.xs[2])
(* the leaves in textual order, a single base read as the span n..n *)
RECURSIVE Leaves(_)
Leaves(loc) == CASE loc.t = "span" -> <<[a |-> loc.a, b |-> loc.b, p5 |-> loc.p5, p3 |-> loc.p3]>>
                 [] loc.t = "single" -> <<[a |-> loc.n, b |-> loc.n, p5 |-> FALSE, p3 |-> FALSE]>>
                 [] loc.t = "compl" -> Leaves(loc.x)
                 [] loc.t = "join" -> LET f[i \in 0..Len(loc.xs)] == IF i = 0 THEN <<>> ELSE f[i - 1] \o Leaves(loc.xs[i]) IN f[Len(loc.xs)]

RECURSIVE PrintLoc(_)
PrintLoc(loc) ==
    CASE loc.t = "span"   -> (IF loc.p5 THEN "<" ELSE "") \o ToString(loc.a) \o ".." \o (IF loc.p3 THEN ">" ELSE "") \o ToString(loc.b)
      [] loc.t = "single" -> ToString(loc.n)
      [] loc.t = "join"   -> "join(" \o JoinSep([i \in 1..Len(loc.xs) |-> PrintLoc(loc.xs[i])], ",") \o ")"
      [] loc.t = "compl"  -> "complement(" \o PrintLoc(loc.x) \o ")"

(* ---- recogniser ---- *)
Digits == {"0", "1", "2", "3", "4", "5", "6", "7", "8", "9"}
DigitVal == [c \in Digits |-> CASE c = "0" -> 0 [] c = "1" -> 1 [] c = "2" -> 2 [] c = "3" -> 3 [] c = "4" -> 4
                                [] c = "5" -> 5 [] c = "6" -> 6 [] c = "7" -> 7 [] c = "8" -> 8 [] c = "9" -> 9]
At(s, i) == IF i >= 1 /\ i <= Len(s) THEN SubSeq(s, i, i) ELSE ""
Has(s, i, w) == i + Len(w) - 1 <= Len(s) /\ SubSeq(s, i, i + Len(w) - 1) = w
RECURSIVE NumFrom(_, _, _)
NumFrom(s, i, acc) == IF At(s, i) \in Digits THEN NumFrom(s, i + 1, [v |-> 10 * acc.v + DigitVal[At(s, i)], nx |-> i + 1]) ELSE acc
(* [ok, v, nx]: a number starting at i *)
Num(s, i) == IF At(s, i) \in Digits THEN [ok |-> TRUE] @@ NumFrom(s, i, [v |-> 0, nx |-> i]) ELSE [ok |-> FALSE, v |-> 0, nx |-> i]
Fail == [ok |-> FALSE, ast |-> Single(0), nx |-> 0]
RECURSIVE ParseAt(_, _, _), ParseList(_, _, _, _)
ParseAt(s, i, lax) ==
    IF Has(s, i, "complement(") THEN
        LET r == ParseAt(s, i + 11, lax) IN
        IF r.ok /\ At(s, r.nx) = ")" THEN [ok |-> TRUE, ast |-> Compl(r.ast), nx |-> r.nx + 1] ELSE Fail
    ELSE IF Has(s, i, "join(") THEN
        LET r == ParseList(s, i + 5, <<>>, lax) IN
        IF r.ok /\ Len(r.xs) >= 2 THEN [ok |-> TRUE, ast |-> JoinN(r.xs), nx |-> r.nx] ELSE Fail
    ELSE
        LET p5 == At(s, i) = "<"
            n1 == Num(s, IF p5 THEN i + 1 ELSE i) IN
        IF ~n1.ok THEN Fail
        ELSE IF Has(s, n1.nx, "..") THEN
            LET p3 == At(s, n1.nx + 2) = ">"
                n2 == Num(s, IF p3 THEN n1.nx + 3 ELSE n1.nx + 2) IN
            IF ~n2.ok THEN Fail
            ELSE IF lax /\ ~p3 /\ At(s, n2.nx) = ">" THEN [ok |-> TRUE, ast |-> Span(n1.v, n2.v, p5, TRUE), nx |-> n2.nx + 1]
            ELSE [ok |-> TRUE, ast |-> Span(n1.v, n2.v, p5, p3), nx |-> n2.nx]
        ELSE IF p5 THEN Fail ELSE [ok |-> TRUE, ast |-> Single(n1.v), nx |-> n1.nx]
(* operands up to the closing parenthesis: [ok, xs, nx] with nx after ")" *)
ParseList(s, i, acc, lax) ==
    LET r == ParseAt(s, i, lax) IN
    IF ~r.ok THEN [ok |-> FALSE, xs |-> <<>>, nx |-> 0]
    ELSE IF At(s, r.nx) = "," THEN ParseList(s, r.nx + 1, Append(acc, r.ast), lax)
    ELSE IF At(s, r.nx) = ")" THEN [ok |-> TRUE, xs |-> Append(acc, r.ast), nx |-> r.nx + 1]
    ELSE [ok |-> FALSE, xs |-> <<>>, nx |-> 0]
Parse(s, lax) == LET r == ParseAt(s, 1, lax) IN IF r.ok /\ r.nx = Len(s) + 1 THEN r ELSE Fail
(* a recognised location lies within a parent of length n *)
RECURSIVE InRange(_, _)
InRange(loc, n) == CASE loc.t = "span" -> 1 <= loc.a /\ loc.a <= loc.b /\ loc.b <= n
                     [] loc.t = "single" -> 1 <= loc.n /\ loc.n <= n
                     [] loc.t = "compl" -> InRange(loc.x, n)
                     [] loc.t = "join" -> \A i \in 1..Len(loc.xs) : InRange(loc.xs[i], n)

(* ---- poly's Location struct for an AST (0-based half-open leaves, flags, wrapper for a double complement) ---- *)
Node(start, end, c, j, p5, p3, subs) == [start |-> start, end |-> end, complement |-> c, join |-> j, p5 |-> p5, p3 |-> p3, subs |-> subs]
RECURSIVE Struct(_)
Struct(loc) ==
    CASE loc.t = "span"   -> Node(loc.a - 1, loc.b, FALSE, FALSE, loc.p5, loc.p3, <<>>)
      [] loc.t = "single" -> Node(loc.n - 1, loc.n, FALSE, FALSE, FALSE, FALSE, <<>>)
      [] loc.t = "join"   -> Node(0, 0, FALSE, TRUE, FALSE, FALSE, [i \in 1..Len(loc.xs) |-> Struct(loc.xs[i])])
      [] loc.t = "compl"  -> LET s == Struct(loc.x) IN
                             IF s.complement THEN Node(0, 0, TRUE, FALSE, FALSE, FALSE, <<s>>) ELSE [s EXCEPT !.complement = TRUE]
=============================================================================
