CONSTANTS Ids08 = {1, 11}
H = 3
Depth = 4
DeepCopyGet = FALSE
Cuts = {0, 1000}
SPECIFICATION Spec
VIEW View
INVARIANTS Independence
CHECK_DEADLOCK FALSE
