----------------------------- MODULE C20_Trace -----------------------------
(* I->S for C20: recorded runs of uniprot.Parse / uniprot.Read on generated *)
(* documents, undamaged, truncated at a byte offset (every offset of small  *)
(* documents), with garbage inserted, or with the gzip stream truncated.    *)
(*  [ends, rootstart, rootend, t, kind, n, got, errors, closede, closedr,   *)
(*   timeout, disc, ce, cr]                                                 *)
(*   ends[i]   byte offset just after </entry> of entry i                   *)
(*   t         damage offset in the document text (-1: undamaged;           *)
(*             kind "gz": the compressed stream was cut, t is unknown)      *)
(*   got[j]    index of the document entry the j-th delivered entry equals  *)
(*             (accessions, names, sequence text), 0 if it equals none      *)
(* TLC derives from the offsets which entries precede the damage.           *)
EXTENDS Integers, Sequences, FiniteSets, TLC, Json, CSV, IOUtils
Trace == ndJsonDeserialize(IOEnv.TRACEFILE)
VARIABLES l
Judge(e) ==
    LET n == Len(e.ends)
        \* cutting a stream behind its closing root tag damages nothing; inserting garbage there does
        damaged == e.kind # "none" /\ (e.kind = "gz" \/ e.kind = "garbage" \/ e.t < e.rootend)
        mustreport == damaged /\ (e.kind = "gz" \/ e.t >= e.rootstart)     \* a stream cut before its root element opens reads as empty
        k == IF e.kind = "gz" THEN 0 ELSE IF ~damaged THEN n ELSE Cardinality({i \in 1..n : e.ends[i] <= e.t})
        m == Len(e.got) IN
    IF e.timeout THEN "the parser did not terminate with both channels closed (consumer still blocked at the deadline)"
    ELSE IF ~(e.closede /\ e.closedr) THEN "a channel was left open"
    ELSE IF m < k THEN "an entry that precedes the damage was not delivered"
    ELSE IF \E j \in 1..m : j <= n /\ e.got[j] # j /\ ~(damaged /\ j = m /\ j > k) THEN "entries are not delivered in document order with their accessions, names and sequence"
    ELSE IF m > n THEN "more entries delivered than the document holds"
    ELSE IF ~damaged /\ (m # n \/ e.errors # 0) THEN "a well-formed document must deliver exactly its entries and no error"
    ELSE IF damaged /\ e.kind # "gz" /\ m > k + 1 THEN "entries delivered from beyond the damage"
    ELSE IF mustreport /\ e.errors < 1 THEN "a damaged stream must report at least one error"
    ELSE "ok"
Init == l = 1
Next == /\ l <= Len(Trace)
        /\ LET r == Judge(Trace[l]) IN
             CSVWrite("%1$s", <<ToJson([l |-> l, v |-> IF r = "ok" THEN "ok" ELSE "bad", why |-> r])>>, IOEnv.VERDICTFILE)
        /\ l' = l + 1
Spec == Init /\ [][Next]_l
Accepted == TLCGet("stats").diameter - 1 = Len(Trace)
============================================================================
