CONSTANTS Mode = "nucfull"
N = 3
TheoremN = 3
SPECIFICATION Spec
INVARIANTS Emit CanonInOrbit CanonConstant CaseBlind RnaDna
CHECK_DEADLOCK FALSE
