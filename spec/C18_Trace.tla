----------------------------- MODULE C18_Trace -----------------------------
(* I->S for C18: recorded calls of codon.AddCodonTable / CompromiseCodon-   *)
(* Table / Optimize on tables re-weighted from random coding sequences.     *)
(*  [k|->"combine", id, wa, wb, cut, eps, err, add, comp, compba, shape]         *)
(*     wa, wb: observed weights of the operands (sparse); add/comp/compba:  *)
(*     observed results; shape: letters/starts/stops of the results equal   *)
(*     those of the first operand (computed by the harness from the real    *)
(*     tables, compared here with GeneticCode)                              *)
(*  [k|->"opt", id, wa, wb, cut, comp, protein, dna]                        *)
(*     a gene optimised with the observed compromise table                  *)
EXTENDS CodonTables, Sequences, Json, CSV, IOUtils
Trace == ndJsonDeserialize(IOEnv.TRACEFILE)
VARIABLES l
CodonSeq == [k \in 1..64 |-> B4[((k - 1) \div 16) + 1] \o B4[(((k - 1) \div 4) % 4) + 1] \o B4[((k - 1) % 4) + 1]]
LettersStr(id) == Join([k \in 1..64 |-> Code[id][CodonSeq[k]]])
FromSparse(sp) == [c \in Codons |-> IF c \in DOMAIN sp.x THEN sp.x[c] ELSE sp.d]
RangeOf(q) == {q[i] : i \in 1..Len(q)}

JudgeCombine(e) ==
    LET a == FromSparse(e.wa) b == FromSparse(e.wb) IN
    IF e.err # (e.cut < 0 \/ e.cut > 10000 \/ (e.cut = 0 /\ e.eps < 0) \/ (e.cut = 10000 /\ e.eps > 0)) THEN "cut-off outside 0..1 must be rejected, inside accepted"
    ELSE IF FromSparse(e.add) # AddW(a, b) THEN "AddCodonTable is not the pointwise sum"
    ELSE IF e.addletters # LettersStr(e.id) \/ RangeOf(e.addstarts) # Starts[e.id] \/ RangeOf(e.addstops) # Stops[e.id]
         THEN "AddCodonTable changed the genetic code or the start/stop codons"
    ELSE IF e.err THEN "ok"
    ELSE IF ~Matches(FromSparse(e.comp), CompW(e.id, a, b, e.cut), 1) THEN "CompromiseCodonTable differs from mean-of-shares / zero-below-cut-off by more than 1"
    ELSE IF e.comp # e.compba THEN "CompromiseCodonTable is not symmetric"
    ELSE IF e.completters # LettersStr(e.id) \/ RangeOf(e.compstarts) # Starts[e.id] \/ RangeOf(e.compstops) # Stops[e.id]
         THEN "CompromiseCodonTable changed the genetic code or the start/stop codons"
    ELSE "ok"
JudgeOpt(e) ==
    LET a == FromSparse(e.wa) b == FromSparse(e.wb) n == Len(e.protein) IN
    IF Len(e.dna) # 3 * n THEN "optimised gene is not three bases per residue"
    ELSE IF \E i \in 1..n : LET c == SubSeq(e.dna, 3 * i - 2, 3 * i) IN
              \/ c \notin Codons \/ Code[e.id][c] # SubSeq(e.protein, i, i)
              \/ (Total(e.id, a, Code[e.id][c]) > 0 /\ ShareOf(e.id, a, c) < e.cut - 1)
              \/ (Total(e.id, b, Code[e.id][c]) > 0 /\ ShareOf(e.id, b, c) < e.cut - 1)
         THEN "a gene optimised with a compromise table uses a codon rarer than the cut-off in one organism (or mistranslates)"
    ELSE "ok"
Judge(e) == IF e.k = "combine" THEN JudgeCombine(e) ELSE JudgeOpt(e)
Init == l = 1
Next == /\ l <= Len(Trace)
        /\ LET r == Judge(Trace[l]) IN
             CSVWrite("%1$s", <<ToJson([l |-> l, v |-> IF r = "ok" THEN "ok" ELSE "bad", why |-> r])>>, IOEnv.VERDICTFILE)
        /\ l' = l + 1
Spec == Init /\ [][Next]_l
Accepted == TLCGet("stats").diameter - 1 = Len(Trace)
============================================================================
