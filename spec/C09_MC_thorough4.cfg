CONSTANTS M = 2
K = 4
TheoremK = 3
SPECIFICATION Spec
INVARIANTS Emit OrientationFree OrderFree
CHECK_DEADLOCK FALSE
