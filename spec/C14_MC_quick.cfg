CONSTANTS Lens = {1, 2, 3, 69, 70, 71, 72, 139, 140, 141}
Widths = {60, 70, 80}
SPECIFICATION Spec
INVARIANTS Check
CHECK_DEADLOCK FALSE
