CONSTANTS Mode = "invalid"
N = 1
TheoremN = 1
SPECIFICATION Spec
INVARIANTS Emit CanonInOrbit CanonConstant CaseBlind RnaDna
CHECK_DEADLOCK FALSE
