CONSTANTS EnzymeName = "e4"
N = 8
TheoremN = 6
SPECIFICATION Spec
INVARIANTS Emit RotationInvariant LinearInside
CHECK_DEADLOCK FALSE
