CONSTANTS Mode = "withU"
N = 3
VarN = 3
SPECIFICATION Spec
INVARIANTS Emit LengthCase RCIsRevComp Involution AntiHom PalFix VariantsExact
CHECK_DEADLOCK FALSE
