------------------------------ MODULE GffFormat ------------------------------
(* GFF3 with embedded FASTA (C14).                                            *)
(* Abstract record                                                            *)
(*   [name, rstart, rend, seq, feats]   region name and bounds, the sequence, *)
(*   feats: sequence of [seqid, source, type, s, e, score, strand, phase,     *)
(*   attrs], s..e 1-based inclusive as in the file, attrs a sequence of       *)
(*   <<key, value>> pairs.                                                    *)
(* Lines(rec, w)     an independent writer: the file as a sequence of lines,  *)
(*                   sequence wrapped at w columns                            *)
(* Read(lines)       an independent reader of such files                      *)
(* Expected(rec)     what poly must hold after parsing: 0-based half-open     *)
(*                   coordinates, attributes as a map; FeatureSeq = bases s..e*)
EXTENDS Str, Integers
TAB == "\t"
AttrText(attrs) == JoinSep([i \in 1..Len(attrs) |-> attrs[i][1] \o "=" \o attrs[i][2]], ";")
FeatLine(f) == JoinSep(<<f.seqid, f.source, f.type, ToString(f.s), ToString(f.e), f.score, f.strand, f.phase, AttrText(f.attrs)>>, TAB)
WrapSeq(seq, w) == [k \in 1..((Len(seq) + w - 1) \div w) |-> SubSeq(seq, (k - 1) * w + 1, IF k * w < Len(seq) THEN k * w ELSE Len(seq))]
Lines(rec, w) ==
    <<"##gff-version 3", "##sequence-region " \o rec.name \o " " \o ToString(rec.rstart) \o " " \o ToString(rec.rend)>>
    \o [i \in 1..Len(rec.feats) |-> FeatLine(rec.feats[i])]
    \o <<"###", "##FASTA", ">" \o rec.name>> \o WrapSeq(rec.seq, w)

(* ---- reader ---- *)
FastaAt(lines) == CHOOSE i \in 1..Len(lines) : lines[i] = "##FASTA" /\ \A j \in 1..i - 1 : lines[j] # "##FASTA"
HasFasta(lines) == \E i \in 1..Len(lines) : lines[i] = "##FASTA"
ParseAttrs(txt) == LET parts == SplitStr(txt, ";") IN
                   [i \in 1..Len(parts) |-> LET kv == SplitStr(parts[i], "=") IN <<kv[1], kv[2]>>]
ParseFeat(line) == LET f == SplitStr(line, TAB) IN
    [seqid |-> f[1], source |-> f[2], type |-> f[3], s |-> ToNat(f[4]), e |-> ToNat(f[5]),
     score |-> f[6], strand |-> f[7], phase |-> f[8], attrs |-> ParseAttrs(f[9])]
Read(lines) ==
    LET fa == FastaAt(lines)
        region == SplitStr(lines[2], " ")
        (* a line that begins with one '#' is a comment - unless it has the nine tab-separated columns of a feature line: *)
        (* the property admits every seqid free of white space, so "#7" is a seqid (only "##" starts a directive)          *)
        featIdx == SelectSeq([i \in 1..fa - 1 |-> i], LAMBDA i : lines[i] # "" /\ ~StartsWith(lines[i], "##")
                                                                  /\ (~StartsWith(lines[i], "#") \/ Len(SplitStr(lines[i], TAB)) = 9))
        seqLines == SelectSeq(SubSeq(lines, fa + 1, Len(lines)), LAMBDA x : x # "" /\ ~StartsWith(x, ">") /\ ~StartsWith(x, "##")) IN
    [name |-> region[2], rstart |-> ToNat(region[3]), rend |-> ToNat(region[4]),
     seq |-> Join(seqLines),
     feats |-> [k \in 1..Len(featIdx) |-> ParseFeat(lines[featIdx[k]])]]
WellFormed(lines) == /\ Len(lines) >= 3 /\ StartsWith(lines[1], "##gff-version") /\ StartsWith(lines[2], "##sequence-region ")
                     /\ Len(SplitStr(lines[2], " ")) = 4 /\ HasFasta(lines)

(* ---- what poly must hold ---- *)
AttrSet(attrs) == {attrs[i] : i \in 1..Len(attrs)}
Expected(rec) == [name |-> rec.name, rstart |-> rec.rstart, rend |-> rec.rend, seq |-> rec.seq,
                  feats |-> [i \in 1..Len(rec.feats) |->
                      LET f == rec.feats[i] IN
                      [seqid |-> f.seqid, source |-> f.source, type |-> f.type, start |-> f.s - 1, end |-> f.e,
                       score |-> f.score, strand |-> f.strand, phase |-> f.phase, attrs |-> AttrSet(f.attrs),
                       bases |-> SubSeq(rec.seq, f.s, f.e)]]]
=============================================================================
