CONSTANTS Ids07 = {1, 2, 11, 22, 27}
SPECIFICATION Spec
INVARIANTS Check
CHECK_DEADLOCK FALSE
