CONSTANTS M = 8
MaxJ = 5
MaxAlt = 1
SPECIFICATION Spec
INVARIANTS Check
CHECK_DEADLOCK FALSE
