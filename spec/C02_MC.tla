------------------------------ MODULE C02_MC ------------------------------
(* C02: every location expression with at most MaxOps operators (binary     *)
(* joins, complement) over a parent of P bases; leaves are every span and   *)
(* every single base, with partial markers on the leaves of expressions of  *)
(* at most one operator.  One state per expression.  Theorems: the printed  *)
(* text is recognised back to the same AST, complement is an involution on  *)
(* the denotation, partial markers do not change the bases.  Emitted per    *)
(* state: text, poly struct, expected bases under two parents.              *)
EXTENDS Location, Sequences, Json, CSV, IOUtils
CONSTANTS P, MaxOps, Parent1, Parent2
VARIABLES e, ops
vars == <<e, ops>>
Flags == BOOLEAN \X BOOLEAN
PlainLeaves == {Span(a, b, FALSE, FALSE) : a \in 1..P, b \in 1..P} \cup {Single(n) : n \in 1..P}
GoodLeaf(x) == x.t = "single" \/ x.a <= x.b
Leaves0 == {x \in PlainLeaves : GoodLeaf(x)}
FlagLeaves == {Span(a, b, f[1], f[2]) : a \in 1..P, b \in 1..P, f \in Flags}
Leaves0F == {x \in FlagLeaves : x.a <= x.b} \cup {Single(n) : n \in 1..P}
(* expressions usable as the second operand of a join, by number of operators *)
E0 == Leaves0
E1 == {Compl(x) : x \in E0} \cup {Join2(x, y) : x, y \in E0}
E2 == {Compl(x) : x \in E1} \cup {Join2(x, y) : x \in E0, y \in E1} \cup {Join2(x, y) : x \in E1, y \in E0}
Pool(k) == IF k = 0 THEN E0 ELSE IF k = 1 THEN E0 \cup E1 ELSE E0 \cup E1 \cup E2
Init == e \in Leaves0F /\ ops = 0
Next == /\ ops < MaxOps
        /\ \/ e' = Compl(e) /\ ops' = ops + 1
           \/ \E k \in 0..2 : k <= MaxOps - ops - 1 /\ \E y \in (IF k = 0 THEN E0 ELSE IF k = 1 THEN E1 ELSE E2) :
                 /\ ops' = ops + 1 + k
                 /\ (e' = Join2(e, y) \/ e' = Join2(y, e))
(* flags only survive on expressions of at most one operator *)
HasFlags(x) == \E i \in 1..Len(Leaves(x)) : Leaves(x)[i].p5 \/ Leaves(x)[i].p3
Constraint == ops <= 1 \/ ~HasFlags(e)
Spec == Init /\ [][Next]_vars

Check ==
    LET txt == PrintLoc(e) r == Parse(txt, FALSE) IN
    /\ r.ok /\ r.ast = e                                             \* Parse(PrintLoc(x)) = x
    /\ BasesOf(Compl(Compl(e)), Parent1) = BasesOf(e, Parent1)            \* complement is an involution
    /\ CSVWrite("%1$s", <<ToJson([text |-> txt, struct |-> Struct(e), ops |-> ops,
                                   p1 |-> Parent1, b1 |-> BasesOf(e, Parent1), p2 |-> Parent2, b2 |-> BasesOf(e, Parent2)])>>, IOEnv.OUTFILE)
===========================================================================
