SPECIFICATION Spec
INVARIANTS Check
CHECK_DEADLOCK FALSE
