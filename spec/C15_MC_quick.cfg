CONSTANTS P = 4
MaxOps = 2
Parent1 = "AGGT"
SPECIFICATION Spec
INVARIANTS Check
CHECK_DEADLOCK FALSE
