------------------------------ MODULE C17_MC ------------------------------
(* C17: the barcode selection loop as a state machine (one action per outer *)
(* iteration = one barcode attempt), for the De Bruijn sequences of order 2 *)
(* and 3, every barcode length in Lens, every set of at most MaxBans banned *)
(* words of length 2..BanLen and at most one filter.  The invariant is the  *)
(* property (ListOK on the growing list).  With Fixpoint = FALSE TLC finds  *)
(* the adversarial ban sets the property speaks of.  Every initial state is *)
(* emitted as an S->I input for the real function.                          *)
EXTENDS Barcodes, Sequences, SequencesExt, Json, CSV, IOUtils
CONSTANTS Orders, Lens, MaxBans, BanLen, Fixpoint
DB == [n \in {2, 3} |-> IF n = 2 THEN "AATAGACTTGTCGGCCA"
                        ELSE "AAATAAGAACATTATGATCAGTAGGAGCACTACGACCTTTGTTCTGGTGCTCGTCCGGGCGCCCAA"]
ASSUME \A n \in {2, 3} : IsDeBruijn(DB[n], n)
Letters == {"A", "T", "G", "C"}
Words(k) == IF k = 2 THEN {a \o b : a, b \in Letters} ELSE {a \o b \o c : a, b, c \in Letters}
BanWords == UNION {Words(k) : k \in 2..BanLen}
BanSets == {{}} \cup (IF MaxBans >= 1 THEN {{a} : a \in BanWords} ELSE {}) \cup (IF MaxBans >= 2 THEN {{a, b} : a, b \in BanWords} ELSE {})
FilterSets == {{}, {"noGG"}, {"notA"}, {"gcMax"}}
VARIABLES n, L, bans, filters, num, list, idx, done
vars == <<n, L, bans, filters, num, list, idx, done>>
Init == /\ n \in Orders /\ L \in Lens /\ L >= n /\ bans \in BanSets /\ filters \in FilterSets
        /\ num = 0 /\ list = <<>> /\ idx = <<>> /\ done = FALSE
Stride == L - (n - 1)
Steps == LET bq == SetToSeq(bans) fq == SetToSeq(filters) IN
         [k \in 1..2 * Len(bq) |-> [kind |-> IF k % 2 = 1 THEN "ban" ELSE "rc", w |-> bq[(k + 1) \div 2]]]
         \o [k \in 1..Len(fq) |-> [kind |-> "filter", w |-> fq[k]]]
Attempt == /\ ~done
           /\ IF num * Stride + L < Len(DB[n])
              THEN LET s0 == num * Stride
                       s == Settle(DB[n], L, s0, Steps, Fixpoint) IN
                   IF s = -1 THEN done' = TRUE /\ UNCHANGED <<num, list, idx>>
                   ELSE /\ list' = Append(list, SubSeq(DB[n], s + 1, s + L)) /\ idx' = Append(idx, s)
                        /\ num' = num + 1 + (s - s0) /\ UNCHANGED done
              ELSE done' = TRUE /\ UNCHANGED <<num, list, idx>>
           /\ UNCHANGED <<n, L, bans, filters>>
Spec == Init /\ [][Attempt]_vars
PropertyHolds == ListOK(DB[n], n, L, bans, filters, list, idx)
NoSharedWord == \A i, j \in 1..Len(list) : i # j => ~SharesWord(list[i], list[j], n)
EmitInput == (num = 0 /\ list = <<>> /\ ~done) =>
    CSVWrite("%1$s", <<ToJson([n |-> n, len |-> L, bans |-> SetToSeq(bans), filters |-> SetToSeq(filters)])>>, IOEnv.OUTFILE)
===========================================================================
