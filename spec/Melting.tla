------------------------------- MODULE Melting -------------------------------
(* Nearest-neighbour melting temperature of an oligonucleotide (C19), in      *)
(* FIXED POINT (TLC has 32-bit integers and no logarithm).                    *)
(*                                                                            *)
(* Parameters: SantaLucia & Hicks 2004 unified set.  Enthalpies in tenths of  *)
(* kcal/mol, entropies in tenths of cal/(mol K).  Written for the ten         *)
(* distinct dimer duplexes; a dimer and its reverse complement are the same   *)
(* duplex, so the 16-entry table is derived (NN).                             *)
(*   dH10(w)     = initiation + sum over adjacent bases + 3'-terminal A/T     *)
(*   dSnn10(w)   = the same for entropy, plus the symmetry term if w is       *)
(*                 self-complementary                                         *)
(*   dS3(w,ls)   = entropy in milli cal/K incl. the salt term                 *)
(*                 0.368 (N-1) ln(Na + 140 Mg), ls = 1000 ln(...)             *)
(*   D3(w,ls,lc) = dS3 + 1.9872 ln(C/f) in milli cal/K, lc = 1000 ln(C/f),    *)
(*                 f = 1 for self-complementary oligos, 4 otherwise           *)
(*   TmCentiC    = 100 * (1000 dH / D - 273.15) by long division              *)
(* Intermediate products stay below 6*10^8 for oligos up to 200 nt.           *)
EXTENDS Nucleotides, Integers, MeltingLn

Duplexes == [d \in {"AA", "AT", "TA", "CA", "GT", "CT", "GA", "CG", "GC", "GG"} |->
   CASE d = "AA" -> [h |-> -76,  s |-> -213]
     [] d = "AT" -> [h |-> -72,  s |-> -204]
     [] d = "TA" -> [h |-> -72,  s |-> -213]
     [] d = "CA" -> [h |-> -85,  s |-> -227]
     [] d = "GT" -> [h |-> -84,  s |-> -224]
     [] d = "CT" -> [h |-> -78,  s |-> -210]
     [] d = "GA" -> [h |-> -82,  s |-> -222]
     [] d = "CG" -> [h |-> -106, s |-> -272]
     [] d = "GC" -> [h |-> -98,  s |-> -244]
     [] d = "GG" -> [h |-> -80,  s |-> -199]]
Dimers == {a \o b : a, b \in Bases}
RCDimer(d) == BaseComp[SubSeq(d, 2, 2)] \o BaseComp[SubSeq(d, 1, 1)]
NN == [d \in Dimers |-> IF d \in DOMAIN Duplexes THEN Duplexes[d] ELSE Duplexes[RCDimer(d)]]
ASSUME \A d \in Dimers : d \in DOMAIN Duplexes \/ RCDimer(d) \in DOMAIN Duplexes
InitH == 2      InitS == -57
SymS == -14
TermH == 22     TermS == 69

(* w: word over A,C,G,T (upper case) of length >= 2 *)
SelfCompl(w) == w = RCW(w)
TermAT(w) == w[Len(w)] \in {"A", "T"}
SumH(w) == LET f[i \in 0..Len(w) - 1] == IF i = 0 THEN 0 ELSE f[i - 1] + NN[w[i] \o w[i + 1]].h IN f[Len(w) - 1]
SumS(w) == LET f[i \in 0..Len(w) - 1] == IF i = 0 THEN 0 ELSE f[i - 1] + NN[w[i] \o w[i + 1]].s IN f[Len(w) - 1]
dH10(w) == InitH + SumH(w) + (IF TermAT(w) THEN TermH ELSE 0)
dSnn10(w) == InitS + SumS(w) + (IF TermAT(w) THEN TermS ELSE 0) + (IF SelfCompl(w) THEN SymS ELSE 0)
(* rounding division toward nearest for possibly negative numerators *)
RoundDiv(a, b) == IF a >= 0 THEN (2 * a + b) \div (2 * b) ELSE -((2 * (-a) + b) \div (2 * b))
dS3(w, ls) == dSnn10(w) * 100 + RoundDiv(368 * (Len(w) - 1) * ls, 1000)
D3(w, ls, lc) == dS3(w, ls) + RoundDiv(19872 * lc, 10000)
(* floor(a * 10^5 / b) for 0 <= a, 0 < b, by long division: remainders stay below 10 b *)
RECURSIVE LongDiv(_, _, _, _)
LongDiv(q, r, b, k) == IF k = 0 THEN q ELSE LongDiv(q * 10 + (r * 10) \div b, (r * 10) % b, b, k - 1)
Abs(x) == IF x < 0 THEN -x ELSE x
(* melting temperature in hundredths of a degree Celsius; only where D # 0 *)
TmCentiC(w, ls, lc) ==
    LET a == Abs(dH10(w) * 100)                \* |dH| in cal
        d == D3(w, ls, lc)
        q == LongDiv(a \div Abs(d), a % Abs(d), Abs(d), 5)      \* |dH| / |D3| * 10^5  =  |1000 dH / D| * 100
        sign == IF (dH10(w) < 0) = (d < 0) THEN 1 ELSE -1 IN
    sign * q - 27315
MarmurDoty(w) == 2 * Cardinality({i \in 1..Len(w) : w[i] \in {"A", "T"}}) + 4 * Cardinality({i \in 1..Len(w) : w[i] \in {"G", "C"}}) - 7
LnCOf(ci, w) == IF SelfCompl(w) THEN LnC[ci].f1 ELSE LnC[ci].f4
=============================================================================
