----------------------------- MODULE C20_Sched -----------------------------
(* Directed schedules for C20 (S->I): the machine of UniprotStream seen     *)
(* from the places where a harness can steer the real parser without        *)
(* touching it - the io.Reader behind the XML decoder (one piece of the     *)
(* document per Read: the text up to the end of the next entry, the damage, *)
(* or the tail and the end of input) and the consumer of the two channels.  *)
(* Parser steps that need neither (a buffered send with room, the closes)   *)
(* are taken eagerly; a controller step is enabled only when the parser is  *)
(* quiescent (blocked in Read, blocked in a send, or finished).             *)
(*   feed     the reader hands out the next piece (tok: what it holds)      *)
(*   recvE    the consumer takes an entry out of the buffer                 *)
(*   rvE      ... by rendezvous (capacity 0)                                *)
(*   recvR / rvR   the same for the error channel                           *)
(*   seeE     the sequential consumer finds entries closed and drained      *)
(*   seeAll   the consumer finds everything closed and drained              *)
EXTENDS UniprotStream
VARIABLE sched
svars == <<vars, sched>>
InternalEnabled == \/ pc = "sendentry" /\ ~eclosed /\ ce > 0 /\ Len(echan) < ce
                   \/ pc \in {"senderr", "senderr_partial"} /\ ~rclosed /\ cr > 0 /\ rchan < cr
                   \/ pc \in {"closeE", "closeR", "closeboth"}
Step(op) == sched' = Append(sched, [op |-> op, pc |-> pc, tok |-> IF op = "feed" THEN NextTok ELSE "", ne |-> Len(echan), nr |-> rchan])
InitS == Init /\ sched = <<>>
NextS == \/ InternalEnabled /\ (SendEntry \/ SendErr \/ SendErrPartial \/ CloseE \/ CloseR \/ CloseBoth) /\ UNCHANGED sched
         \/ /\ ~InternalEnabled
            /\ \/ Token /\ Step("feed")
               \/ RecvE /\ Step("recvE")
               \/ RecvR /\ Step("recvR")
               \/ SendEntry /\ Step("rvE")
               \/ (SendErr \/ SendErrPartial) /\ Step("rvR")
               \/ EntriesDrained /\ Step("seeE")
               \/ AllDrained /\ Step("seeAll")
SpecS == InitS /\ [][NextS]_svars /\ WF_svars(NextS)
EmitS == cpc = "done" => CSVWrite("%1$s", <<ToJson([k |-> k, damaged |-> damaged, partial |-> partial, disc |-> disc, ce |-> ce, cr |-> cr,
                                                    sched |-> sched])>>, IOEnv.OUTFILE)
============================================================================
