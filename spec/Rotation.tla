----------------------------- MODULE Rotation -----------------------------
(* Circular sequences and their canonical (lexicographically least)        *)
(* rotation.  Sequences here are tuples over an ordered letter set that is *)
(* represented by naturals (the ordinal of the letter), because TLC        *)
(* strings carry no order.                                                 *)
(*                                                                         *)
(*  Rot(x,k)      the rotation of x that starts at 0-based offset k        *)
(*  Leq(a,b)      lexicographic order on equal-length tuples               *)
(*  LeastRot(x)   DECLARATIVE: the <=-minimum of the set of rotations      *)
(*  LeastRotFast  an O(n)-comparisons evaluation used on long inputs;      *)
(*                Rotation_MC checks LeastRotFast = LeastRot in small scope*)
(*  Booth*        a transcription of Booth's failure-function algorithm    *)
(*                (the algorithm poly chose) as a step function, checked   *)
(*                against LeastRot in Booth_MC                             *)
EXTENDS Integers, Sequences, TLC

Rot(x, k) == [i \in 1..Len(x) |-> x[((i + k - 1) % Len(x)) + 1]]
Rotations(x) == IF x = <<>> THEN {<<>>} ELSE {Rot(x, k) : k \in 0..Len(x) - 1}

RECURSIVE LeqFrom(_, _, _)
LeqFrom(a, b, i) == IF i > Len(a) THEN TRUE
                    ELSE IF a[i] < b[i] THEN TRUE
                    ELSE IF a[i] > b[i] THEN FALSE
                    ELSE LeqFrom(a, b, i + 1)
Leq(a, b) == LeqFrom(a, b, 1)

LeastRot(x) == CHOOSE r \in Rotations(x) : \A q \in Rotations(x) : Leq(r, q)

(* strict comparison of the rotations at offsets a and b without building them *)
RECURSIVE RotLessFrom(_, _, _, _)
RotLessFrom(x, a, b, i) ==
    IF i >= Len(x) THEN FALSE
    ELSE LET ca == x[((a + i) % Len(x)) + 1]
             cb == x[((b + i) % Len(x)) + 1]
         IN IF ca < cb THEN TRUE ELSE IF ca > cb THEN FALSE ELSE RotLessFrom(x, a, b, i + 1)
RECURSIVE BestFrom(_, _, _)
BestFrom(x, best, k) == IF k >= Len(x) THEN best
                        ELSE BestFrom(x, IF RotLessFrom(x, k, best, 0) THEN k ELSE best, k + 1)
LeastRotIndex(x) == IF x = <<>> THEN 0 ELSE BestFrom(x, 0, 1)
LeastRotFast(x) == IF x = <<>> THEN x ELSE Rot(x, LeastRotIndex(x))

IsRotationOf(y, x) == y \in Rotations(x)

(***************************************************************************)
(* The same definitions over native strings, for inputs of thousands of    *)
(* letters.  Ord maps a 1-letter string to its ordinal.  Two rotations of  *)
(* a string are compared by bisecting on native prefix equality (so one    *)
(* comparison costs O(log n) evaluation steps) and then comparing the      *)
(* first differing letter.  dd is the doubled string s \o s.              *)
(***************************************************************************)
RECURSIVE Lcp(_, _, _, _, _)
Lcp(dd, a, b, lo, hi) ==   \* prefixes of length lo agree; those of length hi+1 do not (or hi = n)
    IF lo = hi THEN lo
    ELSE LET mid == (lo + hi + 1) \div 2 IN
         IF SubSeq(dd, a + 1, a + mid) = SubSeq(dd, b + 1, b + mid)
         THEN Lcp(dd, a, b, mid, hi) ELSE Lcp(dd, a, b, lo, mid - 1)
StrRotLess(Ord(_), dd, n, a, b) ==
    LET d == Lcp(dd, a, b, 0, n) IN
      d < n /\ Ord(SubSeq(dd, a + d + 1, a + d + 1)) < Ord(SubSeq(dd, b + d + 1, b + d + 1))
(* o is the least rotation of s; idx is a witness offset supplied by the caller *)
IsLeastRotStr(Ord(_), s, o, idx) ==
    LET n == Len(s) IN
    /\ Len(o) = n
    /\ idx \in 0..n
    /\ SubSeq(s \o s, idx + 1, idx + n) = o
    /\ \A k \in 1..n - 1 : ~StrRotLess(Ord, o \o o, n, k, 0)
===========================================================================
