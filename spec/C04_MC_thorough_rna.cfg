CONSTANTS Mode = "rna"
N = 8
TheoremN = 6
SPECIFICATION Spec
INVARIANTS Emit CanonInOrbit CanonConstant CaseBlind RnaDna
CHECK_DEADLOCK FALSE
