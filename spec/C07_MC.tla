------------------------------ MODULE C07_MC ------------------------------
(* C07: which codons may codon.Optimize emit?  One state per (genetic code, *)
(* weighting pattern): the weights are laid out per amino acid by codon     *)
(* rank (TCAG order) from boundary patterns - 1:9 (exactly 10 %: excluded), *)
(* 1:10, 11:89 (11 %: included), a zero-weight codon, 10:30:60, an amino    *)
(* acid (or the stop signal) whose synonyms all have weight 0, a table with *)
(* no usage at all or with one used codon only; code 27 has                 *)
(* no stop signal among its letters at all.  Emitted per state: the weights, *)
(* and per amino-acid letter the eligible codon set (empty = unencodable).  *)
EXTENDS CodonTables, Sequences, SequencesExt, Json, CSV, IOUtils
CONSTANTS Ids07
Pats == {"ones", "p1_9", "p1_10", "p11_89", "zero1", "p10_30_60", "deadF", "p9_1", "p21_179", "p101_899", "deadStop", "allzero", "onlyM"}
CodonSeq == [k \in 1..64 |-> B4[((k - 1) \div 16) + 1] \o B4[(((k - 1) \div 4) % 4) + 1] \o B4[((k - 1) % 4) + 1]]
Idx == [c \in Codons |-> CHOOSE k \in 1..64 : CodonSeq[k] = c]
Rank(id, c) == Cardinality({d \in CodonsOf(id, Code[id][c]) : Idx[d] < Idx[c]})
PatW(p, id, c) ==
    LET r == Rank(id, c) IN
    CASE p = "ones"      -> 1
      [] p = "p1_9"      -> IF r = 0 THEN 1 ELSE 9
      [] p = "p9_1"      -> IF r = 0 THEN 9 ELSE 1
      [] p = "p1_10"     -> IF r = 0 THEN 1 ELSE 10
      [] p = "p11_89"    -> IF r = 0 THEN 11 ELSE 89
      [] p = "p21_179"   -> IF r = 0 THEN 21 ELSE 179          \* 10.5 % for two-codon amino acids
      [] p = "p101_899"  -> IF r = 0 THEN 101 ELSE 899         \* 10.1 %
      [] p = "zero1"     -> IF r = 0 THEN 0 ELSE 5
      [] p = "p10_30_60" -> IF r = 0 THEN 10 ELSE IF r = 1 THEN 30 ELSE 60
      [] p = "deadF"     -> IF Code[id][c] \in {"F", "W"} THEN 0 ELSE 3
      [] p = "deadStop"  -> IF Code[id][c] = "*" THEN 0 ELSE 2      \* a table re-weighted from a gene without its stop codon
      [] p = "allzero"   -> 0                                       \* ... from text without a single complete codon
      [] p = "onlyM"     -> IF c = "ATG" THEN 7 ELSE 0              \* ... from a start codon alone
VARIABLES id, pat, w
vars == <<id, pat, w>>
Init == id = 0 /\ pat = "" /\ w = Zeros
Next == \/ id = 0 /\ pat = "" /\ pat' \in Pats /\ UNCHANGED <<id, w>>
        \/ id = 0 /\ pat # "" /\ \E i \in Ids07 : id' = i /\ w' = [c \in Codons |-> PatW(pat, i, c)] /\ UNCHANGED pat
Spec == Init /\ [][Next]_vars

Check == id # 0 =>
    /\ CSVWrite("%1$s", <<ToJson([id |-> id, pat |-> pat, w |-> Sparse(w),
                                   elig |-> [aa \in LettersOf(id) |-> SetToSeq(Eligible(id, w, aa))]])>>, IOEnv.OUTFILE)
    (* every eligible codon encodes the residue (so the optimised gene translates back) *)
    /\ \A aa \in LettersOf(id) : \A c \in Eligible(id, w, aa) : Code[id][c] = aa /\ w[c] > 0
    (* a residue is unencodable exactly when all its synonyms have weight 0 *)
    /\ \A aa \in LettersOf(id) : (Eligible(id, w, aa) = {}) <=> (Total(id, w, aa) = 0)
    (* a codon with exactly 10 % usage is excluded, one with more is eligible *)
    /\ \A c \in Codons : (w[c] > 0 /\ 10 * w[c] > Total(id, w, Code[id][c])) <=> c \in Eligible(id, w, Code[id][c])
===========================================================================
