CONSTANTS M = 3
K = 3
UsedCheck = FALSE
ChanCap = 0
PoolSet = "five"
SPECIFICATION Spec
INVARIANTS WgNeverNegative NoSendOnClosed CloseAfterAllDone WgCountsLive ResultIsRings
PROPERTY Termination
CHECK_DEADLOCK FALSE
