---------------------------- MODULE Nucleotides ----------------------------
(* IUPAC nucleotide codes with SET semantics.  A code denotes a non-empty   *)
(* subset of the four bases; the complement of a code is DERIVED: it is the *)
(* code that denotes the set of complementary bases.  Nothing here is       *)
(* copied from poly's 32-entry table.                                       *)
(*                                                                          *)
(* Letters are 1-character strings; sequences are tuples of letters         *)
(* ("words") or native strings (converted with Str!Chars / Str!Join).       *)
EXTENDS Str, FiniteSets

Bases == {"A", "C", "G", "T"}
BaseComp == [b \in Bases |-> CASE b = "A" -> "T" [] b = "T" -> "A" [] b = "C" -> "G" [] b = "G" -> "C"]

(* the 15 IUPAC DNA codes (NC-IUB 1984) *)
CodeSet == [c \in {"A","C","G","T","R","Y","S","W","K","M","B","D","H","V","N"} |->
    CASE c = "A" -> {"A"} [] c = "C" -> {"C"} [] c = "G" -> {"G"} [] c = "T" -> {"T"}
      [] c = "R" -> {"A","G"} [] c = "Y" -> {"C","T"} [] c = "S" -> {"C","G"} [] c = "W" -> {"A","T"}
      [] c = "K" -> {"G","T"} [] c = "M" -> {"A","C"}
      [] c = "B" -> {"C","G","T"} [] c = "D" -> {"A","G","T"} [] c = "H" -> {"A","C","T"} [] c = "V" -> {"A","C","G"}
      [] c = "N" -> {"A","C","G","T"}]
Codes == DOMAIN CodeSet
CodeOf(S) == CHOOSE c \in Codes : CodeSet[c] = S
ASSUME CodesBijective == \A S \in (SUBSET Bases) \ {{}} : \E c \in Codes : CodeSet[c] = S /\ \A d \in Codes : CodeSet[d] = S => d = c

(* complement of an upper-case code, derived from the set semantics *)
CompCode == [c \in Codes |-> CodeOf({BaseComp[b] : b \in CodeSet[c]})]

LowerCodes == {LoC(c) : c \in Codes}
AllCodes == Codes \cup LowerCodes            \* the 30 letters of the property's domain
WithU == AllCodes \cup {"U", "u"}            \* U (RNA spelling of T) complements to A

(* complement of any letter of WithU; case is preserved *)
Comp(c) == IF c = "U" THEN "A" ELSE IF c = "u" THEN "a"
           ELSE IF c \in Codes THEN CompCode[c] ELSE LoC(CompCode[UpC(c)])

(* ---- words (tuples of letters) ---- *)
ComplementW(w) == [i \in 1..Len(w) |-> Comp(w[i])]
ReverseW(w)    == [i \in 1..Len(w) |-> w[Len(w) + 1 - i]]
RCW(w)         == [i \in 1..Len(w) |-> Comp(w[Len(w) + 1 - i])]
IsPalindromicW(w) == w = RCW(w)

(* every concrete A/C/G/T word an (upper- or lower-case) IUPAC word stands for *)
VariantsW(w) == {v \in [1..Len(w) -> Bases] : \A i \in 1..Len(w) : v[i] \in CodeSet[UpC(w[i])]}
RECURSIVE ProdFrom(_, _)
ProdFrom(w, i) == IF i > Len(w) THEN 1 ELSE Cardinality(CodeSet[UpC(w[i])]) * ProdFrom(w, i + 1)
NumVariants(w) == ProdFrom(w, 1)

(* ---- native strings ---- *)
RC(s) == Join(RCW(Chars(s)))
Complement(s) == Join(ComplementW(Chars(s)))
Reverse(s) == Join(ReverseW(Chars(s)))
(* charwise judgements that avoid building long strings *)
IsRCOf(r, s) == Len(r) = Len(s) /\ \A i \in 1..Len(s) : SubSeq(r, i, i) = Comp(SubSeq(s, Len(s) + 1 - i, Len(s) + 1 - i))
IsComplementOf(r, s) == Len(r) = Len(s) /\ \A i \in 1..Len(s) : SubSeq(r, i, i) = Comp(SubSeq(s, i, i))
IsReverseOf(r, s) == Len(r) = Len(s) /\ \A i \in 1..Len(s) : SubSeq(r, i, i) = SubSeq(s, Len(s) + 1 - i, Len(s) + 1 - i)
IsVariantOf(v, s) == Len(v) = Len(s) /\ \A i \in 1..Len(s) : SubSeq(v, i, i) \in CodeSet[UpC(SubSeq(s, i, i))]
============================================================================
