CONSTANTS M = 2
K = 2
UsedCheck = TRUE
ChanCap = 0
PoolSet = "all"
SPECIFICATION SpecS
INVARIANTS WgNeverNegative NoSendOnClosed CloseAfterAllDone WgCountsLive ResultIsRings EmitS
CHECK_DEADLOCK FALSE
