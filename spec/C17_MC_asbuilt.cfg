CONSTANTS Orders = {3}
Lens = {4}
MaxBans = 2
BanLen = 3
Fixpoint = FALSE
SPECIFICATION Spec
INVARIANTS PropertyHolds NoSharedWord 
CHECK_DEADLOCK FALSE
