CONSTANTS K = 2
N = 7
SPECIFICATION Spec
INVARIANTS InRange Correct
PROPERTY Terminates
CHECK_DEADLOCK FALSE
