CONSTANTS P = 6
MaxOps = 3
Parent1 = "AGGTCA"
Parent2 = "CATGGA"
SPECIFICATION Spec
CONSTRAINT Constraint
INVARIANTS Check
CHECK_DEADLOCK FALSE
