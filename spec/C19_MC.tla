------------------------------ MODULE C19_MC ------------------------------
(* C19: exhaustive call/return model of primers.SantaLucia / MeltingTemp /  *)
(* MarmurDoty.  One state per A/C/G/T word of length 2..N; per state one    *)
(* S->I case holding dH, dS and Tm (fixed point) at every grid point in     *)
(* Grid.  Theorems on the definition: enthalpy does not depend on the       *)
(* concentrations, Tm strictly increases along every grid axis wherever the *)
(* duplex forms (D < 0), case does not matter (words are case-folded).      *)
EXTENDS Melting, Sequences, SequencesExt, Json, CSV, IOUtils
CONSTANTS N, CIdx, NaIdx, MgIdx
VARIABLE w
GridSeq == SetToSeq(CIdx \X NaIdx \X MgIdx)
Init == w = <<>>
Next == \E c \in Bases : Len(w) < N /\ w' = Append(w, c)
Spec == Init /\ [][Next]_w
Point(ci, ni, mi) == [c |-> CGrid[ci], na |-> NaGrid[ni], mg |-> MgGrid[mi],
                      ds3 |-> dS3(w, LnSalt[ni][mi]),
                      d3 |-> D3(w, LnSalt[ni][mi], LnCOf(ci, w)),
                      tm |-> IF D3(w, LnSalt[ni][mi], LnCOf(ci, w)) = 0 THEN 0 ELSE TmCentiC(w, LnSalt[ni][mi], LnCOf(ci, w))]
(* one line per (oligo, oligo concentration): lines stay below the 8 KiB that one append of CSVWrite carries atomically *)
PtsFor(ci) == SelectSeq(GridSeq, LAMBDA t : t[1] = ci)
Emit == Len(w) >= 2 =>
    \A ci \in CIdx :
       CSVWrite("%1$s", <<ToJson([s |-> Join(w), dh10 |-> dH10(w), self |-> SelfCompl(w), md |-> MarmurDoty(w),
                                  pts |-> [k \in 1..Len(PtsFor(ci)) |-> Point(PtsFor(ci)[k][1], PtsFor(ci)[k][2], PtsFor(ci)[k][3])]])>>, IOEnv.OUTFILE)
Duplex(ci, ni, mi) == D3(w, LnSalt[ni][mi], LnCOf(ci, w)) < 0
Tm(ci, ni, mi) == TmCentiC(w, LnSalt[ni][mi], LnCOf(ci, w))
(* non-strict here: at hundredths of a degree two grid points can coincide (e.g. 1 mM vs 50 mM sodium next to 100 mM
   magnesium); strictness is demanded of the real, floating-point outputs by C19_Trace *)
Monotone == Len(w) >= 2 =>
    /\ \A ci, cj \in CIdx, ni \in NaIdx, mi \in MgIdx : (ci < cj /\ Duplex(ci, ni, mi) /\ Duplex(cj, ni, mi)) => Tm(ci, ni, mi) <= Tm(cj, ni, mi)
    /\ \A ci \in CIdx, ni, nj \in NaIdx, mi \in MgIdx : (ni < nj /\ Duplex(ci, ni, mi) /\ Duplex(ci, nj, mi)) => Tm(ci, ni, mi) <= Tm(ci, nj, mi)
    /\ \A ci \in CIdx, ni \in NaIdx, mi, mj \in MgIdx : (mi < mj /\ Duplex(ci, ni, mi) /\ Duplex(ci, ni, mj)) => Tm(ci, ni, mi) <= Tm(ci, ni, mj)
===========================================================================
