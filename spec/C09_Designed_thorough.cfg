CONSTANTS M = 8
MaxJ = 4
MaxAlt = 3
SPECIFICATION Spec
INVARIANTS Check
CHECK_DEADLOCK FALSE
