----------------------------- MODULE C10_Trace -----------------------------
(* I->S for C10: recorded calls of clone.CutWithEnzyme(part, directional =  *)
(* true, enzyme) with the built-in and random custom enzymes on generated   *)
(* layouts, including every rotation of small plasmids.                     *)
(*  [k|->"cut", enzyme, s, circ, frags, panic]  frags: list of [fo, seq, ro] *)
(* TLC recomputes the fragment multiset from Digest.tla.  A layout outside  *)
(* the property's domain is not judged.  g groups the rotations of one      *)
(* plasmid: their multisets must agree (state).                             *)
EXTENDS Digest, Json, CSV, IOUtils
Trace == ndJsonDeserialize(IOEnv.TRACEFILE)
VARIABLES l, grp, bag, have
vars == <<l, grp, bag, have>>
ObsBag(e) == LET R == {e.frags[i] : i \in 1..Len(e.frags)} IN
             [x \in R |-> Cardinality({i \in 1..Len(e.frags) : e.frags[i] = x})]
Judge(e) ==
    LET s == e.s S == Sites(s, e.circ, e.enzyme) IN
    IF ~InDomainS(S, Len(s), e.circ, e.enzyme) THEN [v |-> "ok", why |-> "layout outside the property's domain: not judged"]
    ELSE LET F == FragmentsS(S, s, e.circ, e.enzyme)
             ideal == BagOf(F)
             built == BagOf({f \in F : ~DroppedAsBuilt(s, e.circ, e.enzyme, f)}) IN
         IF e.panic # "" THEN [v |-> "bad", why |-> "the call panics on a layout inside the property's domain"]
         ELSE IF ObsBag(e) = ideal THEN
            (IF e.g = grp /\ have /\ ObsBag(e) # bag THEN [v |-> "bad", why |-> "two rotations of one plasmid give different fragment multisets"]
             ELSE [v |-> "ok", why |-> ""])
         ELSE IF ObsBag(e) = built THEN [v |-> "dev:C10-forward-site-at-origin", why |-> "fragment of a forward site cutting beyond the stored end is dropped"]
         ELSE [v |-> "bad", why |-> "fragments differ from the enzyme geometry"]
Init == l = 1 /\ grp = -1 /\ bag = <<>> /\ have = FALSE
Next == /\ l <= Len(Trace)
        /\ LET e == Trace[l] r == Judge(e) IN
             /\ CSVWrite("%1$s", <<ToJson([l |-> l, v |-> r.v, why |-> r.why])>>, IOEnv.VERDICTFILE)
             /\ grp' = e.g
             /\ LET judgedOk == r.v = "ok" /\ r.why = "" IN
                  /\ bag' = IF judgedOk THEN ObsBag(e) ELSE IF e.g = grp THEN bag ELSE <<>>
                  /\ have' = (judgedOk \/ (e.g = grp /\ have))
        /\ l' = l + 1
Spec == Init /\ [][Next]_vars
Accepted == TLCGet("stats").diameter - 1 = Len(Trace)
============================================================================
