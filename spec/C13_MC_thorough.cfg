CONSTANTS MaxLines = 6
Caps = {0, 1, 2, 3}
SPECIFICATION Spec
INVARIANTS Delivered Prefix ClosedOnce NoSendAfterClose Emit
PROPERTY Termination
CHECK_DEADLOCK FALSE
