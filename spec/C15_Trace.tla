----------------------------- MODULE C15_Trace -----------------------------
(* I->S for C15: recorded JSON round trips of generated annotated sequences *)
(* (location trees to depth 4, partial flags, empty and absent collections, *)
(* non-ASCII text) and of parser outputs over generated GenBank / GFF files.*)
(*  [k|->"rt", x, json, back, seqsbefore, seqsafter]                        *)
(*     x: the abstract sequence the harness assembled (field names of       *)
(*     PolyJson!JSequence's argument); json: the REAL JSON text written by  *)
(*     polyjson.Write, embedded as a JSON value (null read as the empty     *)
(*     collection) and thus deserialised here by TLC's own Json module -    *)
(*     an independent reader; back: the JSON form of the value              *)
(*     polyjson.Read returned; seqsbefore / seqsafter: every feature's      *)
(*     GetSequence() before writing and after reading ("<unresolvable>" for *)
(*     a feature whose location does not lie on the sequence, which the     *)
(*     harness does not ask for its bases).                                 *)
(*  [k|->"conv", fmt, same]                                                 *)
(*     Build_fmt(Parse_json(Write_json(Parse_fmt(text)))) = Build_fmt(      *)
(*     Parse_fmt(text)) compared as strings by the harness.                 *)
EXTENDS PolyJson, Sequences, Json, CSV, IOUtils
Trace == ndJsonDeserialize(IOEnv.TRACEFILE)
VARIABLES l
Judge(e) ==
    IF e.k = "conv" THEN (IF e.same THEN "ok" ELSE "converting " \o e.fmt \o " to JSON and back does not give the text of writing the parsed input directly")
    ELSE LET want == JSequence(e.x) IN
    IF e.json # want THEN "the JSON text does not have the published form (keys / nesting / values) of the value written"
    ELSE IF e.back # want THEN "reading the JSON back yields a value that differs from the one written"
    ELSE IF Len(e.seqsafter) # Len(e.x.features) THEN "the number of features changed"
    ELSE IF \E i \in 1..Len(e.x.features) :
              e.seqsafter[i] # (IF Resolvable(e.x.features[i].loc, Len(e.x.sequence)) THEN StructBases(e.x.features[i].loc, e.x.sequence) ELSE "<unresolvable>")
         THEN "a feature does not report its bases after the JSON round trip (parent link / location tree)"
    ELSE IF e.seqsbefore # e.seqsafter THEN "a feature reports a different sequence after the round trip"
    ELSE "ok"
Init == l = 1
Next == /\ l <= Len(Trace)
        /\ LET r == Judge(Trace[l]) IN
             CSVWrite("%1$s", <<ToJson([l |-> l, v |-> IF r = "ok" THEN "ok" ELSE "bad", why |-> r])>>, IOEnv.VERDICTFILE)
        /\ l' = l + 1
Spec == Init /\ [][Next]_l
Accepted == TLCGet("stats").diameter - 1 = Len(Trace)
============================================================================
