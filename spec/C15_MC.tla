------------------------------ MODULE C15_MC ------------------------------
(* C15: for every location expression (as in C02_MC, quick bounds) one      *)
(* annotated sequence holding a feature with that location tree; emitted:   *)
(* the abstract sequence, its JSON form (PolyJson!JSequence) and the bases  *)
(* the feature must report after the JSON round trip.  Theorem: the JSON    *)
(* form of the structure denotes the same bases as the INSDC expression.    *)
(* Every tree is emitted on three parents: the full one, the empty one (an  *)
(* annotation-only record) and one a base shorter (features reaching past   *)
(* the end): the value must survive in every field whether or not its       *)
(* features resolve (res); bases are compared only where they do.           *)
EXTENDS PolyJson, Sequences, Json, CSV, IOUtils
CONSTANTS P, MaxOps, Parent1
VARIABLES e, ops
vars == <<e, ops>>
Flags == BOOLEAN \X BOOLEAN
AllSpans == {Span(a, b, FALSE, FALSE) : a \in 1..P, b \in 1..P}
Leaves0 == {x \in AllSpans : x.a <= x.b} \cup {Single(n) : n \in 1..P}
AllSpansF == {Span(a, b, f[1], f[2]) : a \in 1..P, b \in 1..P, f \in Flags}
Leaves0F == {x \in AllSpansF : x.a <= x.b}
E1 == {Compl(x) : x \in Leaves0} \cup {Join2(x, y) : x, y \in Leaves0}
Init == e \in Leaves0F \cup {Single(n) : n \in 1..P} /\ ops = 0
Next == /\ ops < MaxOps
        /\ \/ e' = Compl(e) /\ ops' = ops + 1
           \/ \E y \in Leaves0 : ops' = ops + 1 /\ (e' = Join2(e, y) \/ e' = Join2(y, e))
           \/ \E y \in E1 : ops + 2 <= MaxOps /\ ops' = ops + 2 /\ (e' = Join2(e, y) \/ e' = Join2(y, e))
Spec == Init /\ [][Next]_vars
Locus0 == [name |-> "json_test", len |-> ToString(P), mol |-> "DNA", div |-> "SYN", date |-> "01-JAN-2020", coding |-> "bp", circular |-> FALSE, linear |-> TRUE]
AnnSeq(ex, parent) == [name |-> "", gffversion |-> "", rstart |-> 0, rend |-> 0, size |-> 0, type |-> "", date |-> "", definition |-> "a definition",
            accession |-> "ACC1", version |-> "", keywords |-> "", organism |-> "", source |-> "", origin |-> "", locus |-> Locus0,
            refs |-> <<[index |-> "1", authors |-> "A. Author", title |-> "T", journal |-> "J", pubmed |-> "", remark |-> "r", range |-> "(bases 1 to 4)"]>>,
            other |-> [k \in {"COMMENT"} |-> "free text"], description |-> "", sequence |-> parent,
            features |-> <<[name |-> "", source |-> "", type |-> "misc_feature", score |-> "", strand |-> "", phase |-> "",
                            attrs |-> [k \in {"note", "label"} |-> IF k = "note" THEN "a/b=c" ELSE "x"], loctext |-> PrintLoc(ex), loc |-> Struct(ex), desc |-> ""]>>]
Check == /\ StructBases(Struct(e), Parent1) = BasesOf(e, Parent1)
         /\ JBases(JLoc(Struct(e)), Parent1) = BasesOf(e, Parent1)
         /\ \A parent \in {Parent1, "", SubSeq(Parent1, 1, Len(Parent1) - 1)} :
               LET res == Resolvable(Struct(e), Len(parent)) IN
               /\ res = InRange(e, Len(parent))
               /\ res => StructBases(Struct(e), parent) = BasesOf(e, parent)
               /\ CSVWrite("%1$s", <<ToJson([json |-> JSequence(AnnSeq(e, parent)), res |-> res,
                                               bases |-> IF res THEN BasesOf(e, parent) ELSE ""])>>, IOEnv.OUTFILE)
===========================================================================
