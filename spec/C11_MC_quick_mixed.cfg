CONSTANTS Mode = "withU"
N = 2
VarN = 2
SPECIFICATION Spec
INVARIANTS Emit LengthCase RCIsRevComp Involution AntiHom PalFix VariantsExact
CHECK_DEADLOCK FALSE
