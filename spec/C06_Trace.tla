----------------------------- MODULE C06_Trace -----------------------------
(* I->S for C06: recorded calls of codon.Translate with the default tables. *)
(*  [k|->"tr", id, s, p, splits]    p = Translate(s, table id);  splits is a *)
(*      list of [at, pa, pb] = translations of s[1..at] and s[at+1..]        *)
(*      with at a multiple of 3.  p must be the residue-by-residue reading   *)
(*      of s under GeneticCode!Code[id] and pa \o pb = p for every split.    *)
EXTENDS GeneticCode, Json, CSV, IOUtils
Trace == ndJsonDeserialize(IOEnv.TRACEFILE)
VARIABLES l
JudgeTr(e) ==
    IF ~IsTranslationOf(e.p, e.s, e.id) THEN "translation differs from the NCBI code, codon by codon"
    ELSE IF \E i \in 1..Len(e.splits) : LET sp == e.splits[i] IN
              \/ sp.at % 3 # 0
              \/ ~IsTranslationOf(sp.pa, SubSeq(e.s, 1, sp.at), e.id)
              \/ ~IsTranslationOf(sp.pb, SubSeq(e.s, sp.at + 1, Len(e.s)), e.id)
              \/ sp.pa \o sp.pb # e.p
         THEN "translation of a concatenation at a codon boundary is not the concatenation of the translations"
    ELSE "ok"
Init == l = 1
Next == /\ l <= Len(Trace)
        /\ LET r == JudgeTr(Trace[l]) IN
             CSVWrite("%1$s", <<ToJson([l |-> l, v |-> IF r = "ok" THEN "ok" ELSE "bad", why |-> r])>>, IOEnv.VERDICTFILE)
        /\ l' = l + 1
Spec == Init /\ [][Next]_l
Accepted == TLCGet("stats").diameter - 1 = Len(Trace)
============================================================================
