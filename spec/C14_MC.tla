------------------------------ MODULE C14_MC ------------------------------
(* C14: GFF files laid out by the specification's writer, for every         *)
(* sequence length in Lens (all residues modulo the 70-column width, one-   *)
(* letter last lines), features at the extreme coordinates, wrap widths in *)
(* Widths.  Theorem: the independent reader recovers the record.  Each      *)
(* state is an S->I case: the lines and what poly must hold after parsing.  *)
EXTENDS GffFormat, Sequences, Json, CSV, IOUtils
CONSTANTS Lens, Widths
VARIABLES n, w, shape
vars == <<n, w, shape>>
Alphabet == "ACGTTGCAAGCTNRYA"
SeqOf(len) == Join([i \in 1..len |-> SubSeq(Alphabet, ((i * 7 + i \div 5) % 16) + 1, ((i * 7 + i \div 5) % 16) + 1)])
Feat(id, s, e, strand, attrs) == [seqid |-> "chr1", source |-> "src" \o id, type |-> "gene", s |-> s, e |-> e,
                                  score |-> ".", strand |-> strand, phase |-> ".", attrs |-> attrs]
FeatsFor(len, sh) ==
    CASE sh = "none"    -> <<>>
      [] sh = "ends"    -> <<Feat("a", 1, 1, "+", <<<<"ID", "first">>>>), Feat("b", len, len, "-", <<<<"ID", "last">>, <<"Name", "z z">>, <<"zz", "ends with a blank ">>>>),
                            Feat("c", 1, len, "+", <<<<"ID", "all">>, <<"Note", "whole, sequence">>, <<"a", "1">>>>)>>
      [] sh = "inner"   -> <<Feat("d", (len + 1) \div 2, len, ".", <<<<"ID", "half">>>>)>>
Rec == [name |-> "region_1", rstart |-> 1, rend |-> n, seq |-> SeqOf(n), feats |-> FeatsFor(n, shape)]
Init == n = 0 /\ w = 0 /\ shape = "none"
Next == n = 0 /\ n' \in Lens /\ w' \in Widths /\ shape' \in {"none", "ends", "inner"}
Spec == Init /\ [][Next]_vars
Check == n # 0 =>
    /\ WellFormed(Lines(Rec, w)) /\ Read(Lines(Rec, w)) = Rec
    /\ CSVWrite("%1$s", <<ToJson([lines |-> Lines(Rec, w), expected |-> Expected(Rec)])>>, IOEnv.OUTFILE)
===========================================================================
