------------------------------ MODULE Ligation ------------------------------
(* Ligation of sticky-ended fragments into circular constructs (C09),        *)
(* functional layer.                                                         *)
(*                                                                           *)
(* Overhangs are abstract symbols 1..2M: symbol o and Co(o) are reverse      *)
(* complements of each other (never equal: real designs avoid palindromic    *)
(* overhangs).  A fragment is [f, r, b]: forward overhang, reverse overhang, *)
(* body id.  Supplied the other way round it reads [f |-> Co(r), r |-> Co(f)]*)
(* with the body reverse-complemented.  An ORIENTED fragment is <<i, d>>:    *)
(* index into the pool and direction (TRUE = as supplied).                   *)
(*                                                                           *)
(* A ring is a cyclic sequence of oriented fragments in which each one's     *)
(* reverse overhang is the next one's forward overhang and no junction       *)
(* (forward overhang) occurs twice.  Rings(pool) lists every ring once per   *)
(* rotation and strand; the molecule is the ring modulo those (RingKey).     *)
EXTENDS Integers, Sequences, FiniteSets, TLC
CONSTANT M
Ov == 1..2 * M
Co(o) == IF o <= M THEN o + M ELSE o - M

Fo(pool, x) == IF x[2] THEN pool[x[1]].f ELSE Co(pool[x[1]].r)
Ro(pool, x) == IF x[2] THEN pool[x[1]].r ELSE Co(pool[x[1]].f)
Oriented(pool) == (1..Len(pool)) \X BOOLEAN

(* all simple chains, built incrementally so that only matching extensions are kept *)
RECURSIVE Grow(_, _, _)
Grow(pool, frontier, acc) ==
    IF frontier = {} THEN acc
    ELSE LET ext == {Append(p, x) : p \in frontier, x \in Oriented(pool)}
             good == {q \in ext : /\ Ro(pool, q[Len(q) - 1]) = Fo(pool, q[Len(q)])
                                  /\ \A i \in 1..Len(q) - 1 : Fo(pool, q[i]) # Fo(pool, q[Len(q)])} IN
         Grow(pool, good, acc \cup good)
SimpleChains(pool) == LET start == {<<x>> : x \in Oriented(pool)} IN Grow(pool, start, start)
Rings(pool) == {p \in SimpleChains(pool) : Ro(pool, p[Len(p)]) = Fo(pool, p[1])}

(* the same ring read from another start / on the other strand *)
RotSeq(p, k) == [i \in 1..Len(p) |-> p[((i + k - 1) % Len(p)) + 1]]
FlipRing(p) == [i \in 1..Len(p) |-> <<p[Len(p) + 1 - i][1], ~p[Len(p) + 1 - i][2]>>]
Spellings(p) == {RotSeq(p, k) : k \in 0..Len(p) - 1} \cup {RotSeq(FlipRing(p), k) : k \in 0..Len(p) - 1}
(* a canonical representative: rings are compared through the body ids they string together *)
Molecules(pool) == {Spellings(p) : p \in Rings(pool)}

(* ---- the as-built search (no per-chain memory): does it terminate? ---- *)
(* junction graph: u -> v if some oriented fragment has forward overhang u and reverse overhang v *)
Edge(pool, u, v) == \E x \in Oriented(pool) : Fo(pool, x) = u /\ Ro(pool, x) = v
RECURSIVE ReachFrom(_, _, _, _)
ReachFrom(pool, avoid, S, k) ==     \* nodes reachable from S in <= k steps, never stepping onward from `avoid`
    IF k = 0 THEN S
    ELSE ReachFrom(pool, avoid, S \cup {v \in Ov : \E u \in S \ {avoid} : Edge(pool, u, v)}, k - 1)
(* a seed x spawns without bound iff a cycle of the junction graph is reachable from its reverse overhang *)
(* without passing its forward overhang (where the chain would close)                                    *)
SeedDiverges(pool, x) ==
    LET f0 == Fo(pool, x)
        R == ReachFrom(pool, f0, {Ro(pool, x)}, 2 * M) \ {f0} IN
    \E u \in R : u \in ReachFrom(pool, f0, {v \in Ov : Edge(pool, u, v)} \ {f0}, 2 * M)
AsBuiltDiverges(pool) == \E i \in 1..Len(pool) : SeedDiverges(pool, <<i, TRUE>>)
=============================================================================
