CONSTANTS M = 3
K = 3
TheoremK = 3
SPECIFICATION Spec
INVARIANTS Emit OrientationFree OrderFree
CHECK_DEADLOCK FALSE
