------------------------------ MODULE C08_MC ------------------------------
(* C08: bounded exploration of the codon-table session machine              *)
(* (CodonSession.tla).  A result goes to slot (steps % H).  hist (hidden    *)
(* from the fingerprint by VIEW) records the path; EmitEdge writes one S->I *)
(* behaviour per TRANSITION: the BFS path plus the edge, with both          *)
(* machines' predictions for every live handle and for a fresh request of   *)
(* every default table.                                                     *)
EXTENDS CodonSession, Json, CSV, IOUtils
CONSTANTS Depth, Cuts
S1 == "atgAAAaagTGAnnnAT"
S2 == ""
(* every codon at least once (every amino acid occurs), with uneven multiplicities *)
AllCodons == "TTTTTCTTATTGTCTTCCTCATCGTATTACTAATAGTGTTGCTGATGGCTTCTCCTACTGCCTCCCCCACCGCATCACCAACAGCGTCGCCGACGGATTATCATAATGACTACCACAACGAATAACAAAAAGAGTAGCAGAAGGGTTGTCGTAGTGGCTGCCGCAGCGGATGACGAAGAGGGTGGCGGAGGG"
S3 == AllCodons \o "ATGATGGCTGCTGCTGCAAAAAAGTAA"
S4 == AllCodons \o AllCodons \o "ctgctgctgctgctgCTTgaagaagagTGATGA"
S5 == "AUGaugGCUuaaATGGCNatgUAA"                \* RNA spelling mixed in: only ATG, atg count
S6 == "AUGGCAAAAugaGGCgcaUAA"                   \* a transcript: U throughout, no T anywhere: GCA, AAA, GGC, gca count
Seqs == {S1, S2, S3, S4, S5, S6}
CountOf == [s \in Seqs |-> Count(s)]
ASSUME AllCodonsOnce == Count(AllCodons) = Ones

VARIABLES steps, hist
vars == <<heap, hA, hI, touched, file, steps, hist>>
View == <<heap, hA, hI, touched, file, steps>>
Slot == steps % H
Init == SInit /\ steps = 0 /\ hist = <<>>
Next == /\ steps < Depth /\ steps' = steps + 1
        /\ \/ \E i \in Ids08 : GetA(i, Slot) /\ hist' = Append(hist, [op |-> "get", i |-> i, t |-> Slot])
           \/ \E h \in Handles, s \in Seqs : ReweightA(h, CountOf[s]) /\ hist' = Append(hist, [op |-> "rw", h |-> h, s |-> s])
           \/ \E h1, h2 \in Handles : AddA(h1, h2, Slot) /\ hist' = Append(hist, [op |-> "add", h1 |-> h1, h2 |-> h2, t |-> Slot])
           \/ \E h1, h2 \in Handles, c \in Cuts : CompromiseA(h1, h2, c, Slot)
                                                  /\ hist' = Append(hist, [op |-> "comp", h1 |-> h1, h2 |-> h2, cut |-> c, t |-> Slot])
           \/ \E h \in Handles : RoundtripA(h, Slot) /\ hist' = Append(hist, [op |-> "rt", h |-> h, t |-> Slot])
           \/ \E h \in Handles : SaveA(h) /\ hist' = Append(hist, [op |-> "save", h |-> h])
           \/ LoadA(Slot) /\ hist' = Append(hist, [op |-> "load", t |-> Slot])
Spec == Init /\ [][Next]_vars

(* ---- S->I emission: one line per transition; one header line with the genetic codes ---- *)
ObsH == [h \in Handles |-> IF hA'[h].live
           THEN [live |-> TRUE, code |-> hA'[h].code, ab |-> Sparse(heap'[hA'[h].addr]), id |-> Sparse(hI'[h].v), tol |-> hI'[h].tol]
           ELSE [live |-> FALSE]]
EmitEdge == CSVWrite("%1$s", <<ToJson([k |-> "edge", path |-> hist', handles |-> ObsH,
                                       fresh |-> [j \in 1..Len(IdSeq) |-> [i |-> IdSeq[j], ab |-> Sparse(heap'[j])]]])>>, IOEnv.OUTFILE)
EmitCodes == steps = 0 => CSVWrite("%1$s", <<ToJson([k |-> "codes",
                 codes |-> [j \in 1..Len(IdSeq) |-> [i |-> IdSeq[j], code |-> Code[IdSeq[j]],
                                                      starts |-> SetToSeq(Starts[IdSeq[j]]), stops |-> SetToSeq(Stops[IdSeq[j]])]]])>>, IOEnv.OUTFILE)
===========================================================================
