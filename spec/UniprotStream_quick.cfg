CONSTANTS MaxK = 2
MaxCap = 2
Mode = "closefirst"
SPECIFICATION Spec
INVARIANTS InOrder Outcome NoSendOnClosed EmitScenario
PROPERTY Termination
CHECK_DEADLOCK FALSE
