------------------------------ MODULE C01_MC ------------------------------
(* C01: GenBank files laid out by the specification's writer.  Three        *)
(* abstract records that together hold the cases the property names         *)
(* (lower-case and two-letter locus names, two-digit lengths, molecule      *)
(* types DNA / mRNA / tRNA, features without qualifiers, multi-line         *)
(* locations, qualifier values with '/' and '=', values long enough to      *)
(* wrap, flag and unquoted qualifiers, a glued /translation, 0..2           *)
(* references with remarks, COMMENT / DBLINK blocks) x 16 layout styles.    *)
(* Theorem: the specification's own reader recovers Expected(R) from every  *)
(* layout (the format is unambiguous).  Each state is an S->I case.         *)
EXTENDS GenbankFormat, Sequences, Json, CSV, IOUtils
VARIABLES rid, st
vars == <<rid, st>>
Alphabet == "acgttgcaagctagca"
SeqOf(len) == Join([i \in 1..len |-> SubSeq(Alphabet, ((i * 7 + i \div 5) % 16) + 1, ((i * 7 + i \div 5) % 16) + 1)])
Q(k, ws) == [k |-> k, words |-> ws, quoted |-> TRUE, glue |-> FALSE]
R1 == [locus |-> [name |-> "puc19", len |-> "75", mol |-> "DNA", topo |-> "circular", div |-> "SYN", date |-> "01-JAN-2020"],
       def |-> <<"Cloning", "vector", "pUC19,", "complete", "sequence.">>, acc |-> <<"M77789">>, ver |-> <<"M77789.2">>, kw |-> <<".">>,
       src |-> <<"Cloning", "vector", "pUC19">>, org |-> <<"Cloning", "vector", "pUC19", "other", "sequences;", "artificial", "sequences;", "vectors.">>,
       refs |-> <<>>, others |-> <<>>,
       feats |-> <<[key |-> "source", loc |-> <<"1..75">>, quals |-> <<Q("organism", <<"Cloning", "vector", "pUC19">>), Q("mol_type", <<"other", "DNA">>)>>],
                   [key |-> "gene", loc |-> <<"complement(3..20)">>, quals |-> <<>>],
                   [key |-> "CDS", loc |-> <<"join(1..5,", "complement(7..10),", "20..>30)">>,
                    quals |-> <<Q("note", <<"ratio", "a/b=c", "d=e", "http://x.org/y", "and", "a", "rather", "long", "value", "that", "has", "to", "be", "wrapped", "over", "several", "lines", "of", "the", "feature", "table">>),
                                [k |-> "codon_start", words |-> <<"1">>, quoted |-> FALSE, glue |-> FALSE],
                                [k |-> "pseudo", words |-> <<>>, quoted |-> FALSE, glue |-> FALSE],
                                [k |-> "translation", words |-> <<"MKTAYIAKQRQISFVKSHFSRQLEERLGLIEVQAPILSRVGDGTQDNLSGAEKAVQVKVKALPDAQFEVVHSLAKWKRQTLG">>, quoted |-> TRUE, glue |-> TRUE]>>]>>,
       origin |-> SeqOf(75)]
R2 == [locus |-> [name |-> "ab", len |-> "12", mol |-> "mRNA", topo |-> "linear", div |-> "BCT", date |-> "28-FEB-1999"],
       def |-> <<"A", "definition", "that", "is", "long", "enough", "to", "be", "wrapped", "onto", "continuation", "lines", "by", "any", "writer", "that", "keeps", "its", "lines", "below", "eighty", "columns.">>,
       acc |-> <<"AB000012", "AB000013">>, ver |-> <<"AB000012.1", "GI:12345">>, kw |-> <<"kinase;", "test", "record.">>,
       src |-> <<"Escherichia", "coli">>, org |-> <<"Escherichia", "coli", "Bacteria;", "Proteobacteria;", "Gammaproteobacteria.">>,
       refs |-> <<[idx |-> "1", range |-> <<"(bases", "1", "to", "12)">>, authors |-> <<"Smith,J.", "and", "Doe,J.">>, title |-> <<"A", "title">>,
                   journal |-> <<"J.", "Biol.", "Chem.", "1", "(1),", "1-2", "(1999)">>, pubmed |-> <<"123456">>, remark |-> <<"A", "remark", "on", "this", "paper">>],
                  [idx |-> "2", range |-> <<"(bases", "1", "to", "12)">>, authors |-> <<"Doe,J.">>, title |-> <<"Direct", "Submission">>,
                   journal |-> <<"Submitted", "(01-JAN-1999)", "Somewhere,", "CT,  USA">>, pubmed |-> <<>>, remark |-> <<>>]>>,
       others |-> <<<<"COMMENT", <<"This", "is", "a", "comment", "block", "with", "enough", "words", "to", "need", "more", "than", "a", "single", "line", "in", "narrow", "layouts.">>>>,
                    <<"DBLINK", <<"BioProject:", "PRJNA1">>>>>>,
       feats |-> <<[key |-> "misc_feature", loc |-> <<"<1..12">>, quals |-> <<Q("label", <<"x">>)>>]>>,
       origin |-> SeqOf(12)]
R3 == [locus |-> [name |-> "trna_x1", len |-> "150", mol |-> "tRNA", topo |-> "linear", div |-> "PLN", date |-> "05-MAY-2005"],
       def |-> <<"tRNA.">>, acc |-> <<"X1">>, ver |-> <<"X1.1  GI:1293613">>, kw |-> <<".">>, src |-> <<"yeast">>, org |-> <<"Saccharomyces", "cerevisiae">>,
       refs |-> <<[idx |-> "1", range |-> <<>>, authors |-> <<>>, title |-> <<"Only", "a", "title">>, journal |-> <<"Unpublished">>, pubmed |-> <<>>, remark |-> <<>>]>>,
       others |-> <<>>,
       feats |-> <<[key |-> "tRNA", loc |-> <<"join(1..30,", "61..90,", "complement(100..110),", "145..150)">>, quals |-> <<Q("product", <<"tRNA-Phe">>), Q("db_xref", <<"GeneID:1">>)>>],
                   [key |-> "exon", loc |-> <<"1..30">>, quals |-> <<>>],
                   [key |-> "intron", loc |-> <<"31..60">>, quals |-> <<>>],
                   (* one-base leaves, bare and as spans, with and without partial markers, under operators *)
                   [key |-> "misc_feature", loc |-> <<"join(<5..5,", "complement(7..>7),", "9,", "12..12)">>, quals |-> <<>>],
                   [key |-> "variation", loc |-> <<"<14..14">>, quals |-> <<Q("note", <<"n">>)>>],
                   [key |-> "variation", loc |-> <<"complement(<20..>20)">>, quals |-> <<>>]>>,
       origin |-> SeqOf(150)]
(* words that are top-level keywords, placed where wrapping puts them at the start of continuation lines *)
KW == <<"FEATURES", "and", "ORIGIN", "of", "SOURCE", "in", "REFERENCE", "to", "DEFINITION", "or", "ACCESSION", "VERSION", "LOCUS", "KEYWORDS", "COMMENT", "ORGANISM", "AUTHORS", "TITLE">>
R4 == [R3 EXCEPT !.def = KW, !.others = <<<<"COMMENT", KW \o KW>>>>,
                 !.feats = <<[key |-> "misc_feature", loc |-> <<"1..30">>, quals |-> <<Q("note", KW \o KW), Q("function", <<"ORIGIN">>)>>]>>]
Recs == <<R1, R2, R3, R4>>
Styles == [kw : {40, 67}, qw : {30, 58}, locsplit : BOOLEAN, locus : {"wide", "narrow"}]
Init == rid = 0 /\ st = [kw |-> 0, qw |-> 0, locsplit |-> FALSE, locus |-> ""]
Next == rid = 0 /\ rid' \in 1..4 /\ st' \in Styles
Spec == Init /\ [][Next]_vars
Check == rid # 0 =>
    /\ Read(Write(Recs[rid], st)) = Expected(Recs[rid])
    /\ \A i \in 1..Len(Write(Recs[rid], st)) : Len(Write(Recs[rid], st)[i]) <= 80
    /\ CSVWrite("%1$s", <<ToJson([rid |-> rid, lines |-> Write(Recs[rid], st), expected |-> Expected(Recs[rid])])>>, IOEnv.OUTFILE)
===========================================================================
