---------------------------- MODULE LigationConc ----------------------------
(* Ligation simulator, CONCURRENT layer (C09): the goroutines, the unbuffered *)
(* construct channel, the WaitGroup and the collector of clone.CircularLigate *)
(* with one action per synchronisation point of the code:                     *)
(*                                                                            *)
(*   MainSeed        wg.Add(1); go recurseLigate(seed i)                      *)
(*   MainStartColl   go getConstructs(...)                                    *)
(*   MainWait        wg.Wait() returns (enabled only when the counter is 0)   *)
(*   MainClose       close(c)                                                 *)
(*   MainGet         constructs = <-constructSequences   (rendezvous)         *)
(*   GSpawn          one ligating fragment: wg.Add(1); go recurseLigate(...)  *)
(*                   (the goroutine-local tests - ring closed? junction seen   *)
(*                   before? next ligating fragment? - are folded into it)     *)
(*   GSend           c <- construct   (rendezvous with the collector's        *)
(*                   receive, which also de-duplicates up to rotation/strand) *)
(*   GPut / CollTake the same hand-off through a buffered channel of capacity *)
(*                   ChanCap > 0 (the alternative the code's own comment      *)
(*                   mentions: "A buffered channel is needed to prevent       *)
(*                   blocking"); ChanCap = 0 is the code as built             *)
(*   GExit           deferred wg.Done()                                       *)
(*   CollFinish      collector sees the closed channel and offers its list    *)
(*                                                                            *)
(* UsedCheck = TRUE is the code after the fix (a chain that returns to a      *)
(* junction it already passed is dropped); FALSE is the code as first built,  *)
(* where such a chain keeps spawning: the model then lets the goroutine spin  *)
(* (Spin) so that the non-termination shows up as a liveness violation.       *)
EXTENDS Ligation
CONSTANTS K, UsedCheck, PoolSet, ChanCap
VARIABLES pool, gs, wg, closed, coll, main, result, chan
vars == <<pool, gs, wg, closed, coll, main, result, chan>>

Gids == DOMAIN gs
Cands == [k \in 1..2 * K |-> <<((k - 1) \div 2) + 1, k % 2 = 1>>]     \* loop order of the code: fragment j forward, then reversed
NumCands == 2 * Len(pool)

AllPools == IF PoolSet = "all"
            THEN UNION {[1..n -> [f : Ov, r : Ov]] : n \in 1..K}
            ELSE {<<[f |-> 1, r |-> 2], [f |-> 2, r |-> 1]>>,                                    \* two-part ring
                  <<[f |-> 1, r |-> 2], [f |-> 2, r |-> 1], [f |-> 2, r |-> 1]>>,                \* library: two alternatives
                  <<[f |-> 1, r |-> 2], [f |-> Co(1), r |-> Co(2)]>>,                            \* second part supplied reversed
                  <<[f |-> 1, r |-> 1], [f |-> 1, r |-> Co(1)]>>,                                \* a ring plus a decoy that enters it
                  <<[f |-> 1, r |-> 2], [f |-> 2, r |-> 3], [f |-> 3, r |-> 2]>>}                \* cycle that excludes the seed
                 \cup (IF K >= 4 THEN {<<[f |-> 1, r |-> 2], [f |-> 1, r |-> 2], [f |-> 2, r |-> 1], [f |-> 2, r |-> 1]>>,   \* two alternatives in every slot
                                       <<[f |-> 1, r |-> 2], [f |-> Co(1), r |-> Co(2)], [f |-> 2, r |-> 1], [f |-> 2, r |-> 2]>>} \* flipped alternative + self-closing decoy
                       ELSE {})
Init == /\ pool \in AllPools
        /\ gs = <<>> /\ wg = 0 /\ closed = FALSE
        /\ coll = [pc |-> "idle", seen |-> {}, list |-> <<>>]
        /\ main = [pc |-> "seed", i |-> 1]
        /\ result = <<>> /\ chan = <<>>

FoC(c) == Fo(pool, c[1])
RoC(c) == Ro(pool, c[Len(c)])
(* Steps that touch no shared state (the closed-ring test, the junction test, skipping fragments that do not  *)
(* ligate) commute with everything else, so they are folded into the spawn that creates the goroutine: a new  *)
(* goroutine is born "sending", "looping" at its first ligating candidate, or "exiting".                       *)
MatchAt(chain, k) == Fo(pool, Cands[k]) = RoC(chain)
NextMatch(chain, k) == IF \E j \in k..NumCands : MatchAt(chain, j)
                       THEN CHOOSE j \in k..NumCands : MatchAt(chain, j) /\ \A i \in k..j - 1 : ~MatchAt(chain, i)
                       ELSE 0
NewG(chain, used) ==
    LET st == IF FoC(chain) = RoC(chain) THEN "sending"
              ELSE IF UsedCheck /\ RoC(chain) \in used THEN "exiting"
              ELSE IF NextMatch(chain, 1) = 0 THEN "exiting" ELSE "looping" IN
    [st |-> st, chain |-> chain, used |-> used \cup {RoC(chain)}, k |-> NextMatch(chain, 1)]

MainSeed == /\ main.pc = "seed" /\ main.i <= Len(pool)
            /\ wg' = wg + 1
            /\ gs' = Append(gs, NewG(<<<<main.i, TRUE>>>>, {}))
            /\ main' = [main EXCEPT !.i = @ + 1]
            /\ UNCHANGED <<pool, closed, coll, result, chan>>
MainStartColl == /\ main.pc = "seed" /\ main.i > Len(pool)
                 /\ coll' = [coll EXCEPT !.pc = "recv"]
                 /\ main' = [main EXCEPT !.pc = "wait"]
                 /\ UNCHANGED <<pool, gs, wg, closed, result, chan>>
MainWait == /\ main.pc = "wait" /\ wg = 0
            /\ main' = [main EXCEPT !.pc = "close"]
            /\ UNCHANGED <<pool, gs, wg, closed, coll, result, chan>>
MainClose == /\ main.pc = "close"
             /\ closed' = TRUE
             /\ main' = [main EXCEPT !.pc = "get"]
             /\ UNCHANGED <<pool, gs, wg, coll, result, chan>>
MainGet == /\ main.pc = "get" /\ coll.pc = "offer"
           /\ result' = coll.list
           /\ coll' = [coll EXCEPT !.pc = "done"]
           /\ main' = [main EXCEPT !.pc = "returned"]
           /\ UNCHANGED <<pool, gs, wg, closed, chan>>

(* wg.Add(1); go recurseLigate(chain + candidate k) *)
GSpawn(g) == /\ gs[g].st = "looping"
             /\ LET k == gs[g].k
                    nk == IF k = NumCands THEN 0 ELSE NextMatch(gs[g].chain, k + 1) IN
                /\ wg' = wg + 1
                /\ gs' = Append([gs EXCEPT ![g].k = nk, ![g].st = IF nk = 0 THEN "exiting" ELSE "looping"],
                                NewG(Append(gs[g].chain, Cands[k]), gs[g].used))
             /\ UNCHANGED <<pool, closed, coll, main, result, chan>>
(* unbuffered hand-off: the send completes only together with the collector's receive *)
(* the collector's side of a hand-off: keep the construct unless the same molecule was seen before *)
Absorb(c, chain) == LET key == Spellings(chain) IN
                    IF key \in c.seen THEN c ELSE [c EXCEPT !.seen = @ \cup {key}, !.list = Append(@, chain)]
GSend(g) == /\ ChanCap = 0
            /\ gs[g].st = "sending" /\ coll.pc = "recv" /\ ~closed
            /\ coll' = Absorb(coll, gs[g].chain)
            /\ gs' = [gs EXCEPT ![g].st = "exiting"]
            /\ UNCHANGED <<pool, wg, closed, main, result, chan>>
(* buffered alternative *)
GPut(g) == /\ ChanCap > 0
           /\ gs[g].st = "sending" /\ Len(chan) < ChanCap /\ ~closed
           /\ chan' = Append(chan, gs[g].chain)
           /\ gs' = [gs EXCEPT ![g].st = "exiting"]
           /\ UNCHANGED <<pool, wg, closed, coll, main, result>>
CollTake == /\ coll.pc = "recv" /\ chan # <<>>
            /\ coll' = Absorb(coll, Head(chan))
            /\ chan' = Tail(chan)
            /\ UNCHANGED <<pool, gs, wg, closed, main, result>>
GExit(g) == /\ gs[g].st = "exiting"
            /\ wg' = wg - 1
            /\ gs' = [gs EXCEPT ![g].st = "done"]
            /\ UNCHANGED <<pool, closed, coll, main, result, chan>>
(* as first built: a chain longer than any ring of the pool is on a cycle it will never leave *)
Spinning(g) == ~UsedCheck /\ gs[g].st = "looping" /\ Len(gs[g].chain) > 2 * M
Spin(g) == Spinning(g) /\ UNCHANGED vars
CollFinish == /\ coll.pc = "recv" /\ closed /\ chan = <<>>
              /\ coll' = [coll EXCEPT !.pc = "offer"]
              /\ UNCHANGED <<pool, gs, wg, closed, main, result, chan>>

GNext(g) == (IF Spinning(g) THEN Spin(g) ELSE GSpawn(g)) \/ GSend(g) \/ GPut(g) \/ GExit(g)
Next == MainSeed \/ MainStartColl \/ MainWait \/ MainClose \/ MainGet \/ CollFinish \/ CollTake \/ \E g \in Gids : GNext(g)
Spec == Init /\ [][Next]_vars /\ WF_vars(Next)

(* ---- properties ---- *)
WgNeverNegative == wg >= 0
NoSendOnClosed == \A g \in Gids : gs[g].st = "sending" => ~closed
CloseAfterAllDone == closed => \A g \in Gids : gs[g].st = "done"
WgCountsLive == wg = Cardinality({g \in Gids : gs[g].st # "done"})
ResultIsRings == main.pc = "returned" =>
                   /\ {Spellings(result[i]) : i \in 1..Len(result)} = Molecules(pool)
                   /\ Len(result) = Cardinality(Molecules(pool))
Termination == <>(main.pc = "returned")
=============================================================================
