CONSTANTS Mode = "iupac"
N = 3
TheoremN = 2
SPECIFICATION Spec
INVARIANTS Emit CanonInOrbit CanonConstant CaseBlind RnaDna
CHECK_DEADLOCK FALSE
