CONSTANTS IdsS = {1, 4, 11}
MaxLen = 3
SPECIFICATION Spec
INVARIANTS Check
PROPERTIES UseIsPure
CHECK_DEADLOCK FALSE
