CONSTANTS IdsS = {1, 2, 4, 11, 22}
MaxLen = 3
SPECIFICATION Spec
INVARIANTS Check
PROPERTIES UseIsPure
CHECK_DEADLOCK FALSE
