----------------------------- MODULE C19_Trace -----------------------------
(* I->S for C19: recorded calls of primers.SantaLucia / MeltingTemp /       *)
(* MarmurDoty on random oligos up to 200 nt in random case.                 *)
(*  [k|->"grid", s, ci, ni, mi, dh10, ds3, tmc, md, mdok, defok, caseok]    *)
(*     a call at a grid point: dh10 = round(10 dH), ds3 = round(1000 dS),   *)
(*     tmc = round(100 Tm) as returned by the real code; TLC recomputes     *)
(*     them from Melting.tla (tolerances: dH exact, dS 0.01 + 0.0004 (N-1)  *)
(*     cal/K, Tm 0.05 K).  mdok/defok/caseok: MarmurDoty equals md, the     *)
(*     default helper equals the general function at 500 nM / 50 mM / 0,    *)
(*     results are bit-identical in lower / mixed case.                     *)
(*  [k|->"sweep", g, rank, dh10, tmu]   one point of a sweep g in which ONE *)
(*     concentration increases (off-grid values): tmu = round(10^6 Tm).     *)
(*     Within the duplex-forming regime (Tm above absolute zero) Tm must    *)
(*     strictly increase and dH must not change (state: previous point).    *)
EXTENDS Melting, Sequences, Json, CSV, IOUtils
Trace == ndJsonDeserialize(IOEnv.TRACEFILE)
VARIABLES l, pg, ptm, pdh
vars == <<l, pg, ptm, pdh>>
AbsZero == -273150000
JudgeGrid(e) ==
    LET w == [i \in 1..Len(e.s) |-> UpC(SubSeq(e.s, i, i))]
        n == Len(w)
        ls == LnSalt[e.ni][e.mi]
        lc == LnCOf(e.ci, w)
        d == D3(w, ls, lc) IN
    IF e.dh10 # dH10(w) THEN "enthalpy is not initiation + nearest-neighbour sum + 3'-terminal A/T term"
    ELSE IF Abs(e.ds3 - dS3(w, ls)) > 10 + (4 * (n - 1)) \div 10 + 1 THEN "entropy is not the nearest-neighbour sum with initiation, terminal, symmetry and salt terms"
    ELSE IF d # 0 /\ Abs(e.tmc - TmCentiC(w, ls, lc)) > 5 THEN "Tm is not 1000 dH / (dS + R ln(C/f)) - 273.15"
    ELSE IF e.md # MarmurDoty(w) \/ ~e.mdok THEN "Marmur-Doty estimate is not 2(A+T) + 4(G+C) - 7"
    ELSE IF ~e.defok THEN "MeltingTemp differs from SantaLucia at 500 nM oligo, 50 mM sodium, no magnesium"
    ELSE IF ~e.caseok THEN "results depend on letter case"
    ELSE "ok"
JudgeSweep(e) ==
    IF e.g # pg THEN "ok"
    ELSE IF e.dh10 # pdh THEN "enthalpy changed with a concentration"
    ELSE IF ptm > AbsZero /\ e.tmu > AbsZero /\ ~(e.tmu > ptm) THEN "Tm does not strictly increase with the concentration"
    ELSE "ok"
Init == l = 1 /\ pg = -1 /\ ptm = 0 /\ pdh = 0
Next == /\ l <= Len(Trace)
        /\ LET e == Trace[l] r == IF e.k = "grid" THEN JudgeGrid(e) ELSE JudgeSweep(e) IN
             /\ CSVWrite("%1$s", <<ToJson([l |-> l, v |-> IF r = "ok" THEN "ok" ELSE "bad", why |-> r])>>, IOEnv.VERDICTFILE)
             /\ IF e.k = "sweep" THEN pg' = e.g /\ ptm' = e.tmu /\ pdh' = e.dh10 ELSE UNCHANGED <<pg, ptm, pdh>>
        /\ l' = l + 1
Spec == Init /\ [][Next]_vars
Accepted == TLCGet("stats").diameter - 1 = Len(Trace)
============================================================================
