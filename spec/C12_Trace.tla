----------------------------- MODULE C12_Trace -----------------------------
(* I->S for C12: every recorded call of seqhash.RotateSequence is judged    *)
(* against Rotation.tla.  Events (one per public call return), s and o      *)
(* native strings over the letters a..d (ordinals 1..4):                    *)
(*   [k |-> "full", g, s, o, idx]  o must be the least rotation of s        *)
(*                                  (idx: witness offset, verified here)    *)
(*   [k |-> "big",  g, s, o, idx]  up to 10^6 letters: o must be the        *)
(*                                  rotation of s at idx with the same      *)
(*                                  length (minimality of strings this long *)
(*                                  is not spec-decided)                    *)
(* g is a group id: consecutive events of one group are rotations of one    *)
(* circular string and must all return the same canonical string (state).   *)
EXTENDS Rotation, Json, CSV, IOUtils
Trace == ndJsonDeserialize(IOEnv.TRACEFILE)
VARIABLES l, grp, canon
vars == <<l, grp, canon>>

OrdMap == [c \in {"a", "b", "c", "d"} |-> CASE c = "a" -> 1 [] c = "b" -> 2 [] c = "c" -> 3 [] c = "d" -> 4]
Ord(c) == OrdMap[c]

JudgeFull(e) == IsLeastRotStr(Ord, e.s, e.o, e.idx)
JudgeBig(e)  == /\ Len(e.o) = Len(e.s)
                /\ e.idx \in 0..Len(e.s)
                /\ SubSeq(e.s \o e.s, e.idx + 1, e.idx + Len(e.s)) = e.o
Own(e)   == IF e.k = "full" THEN JudgeFull(e) ELSE JudgeBig(e)
Group(e) == e.g = grp => e.o = canon
Verdict(e) == IF ~Own(e) THEN [v |-> "bad", why |-> "output is not the least rotation of the input"]
              ELSE IF ~Group(e) THEN [v |-> "bad", why |-> "two rotations of one circular string canonicalised differently"]
              ELSE [v |-> "ok", why |-> ""]

Init == l = 1 /\ grp = -1 /\ canon = ""
Next == /\ l <= Len(Trace)
        /\ LET e == Trace[l] r == Verdict(e) IN
             /\ CSVWrite("%1$s", <<ToJson([l |-> l, v |-> r.v, why |-> r.why])>>, IOEnv.VERDICTFILE)
             /\ grp' = e.g /\ canon' = e.o
        /\ l' = l + 1
Spec == Init /\ [][Next]_vars
Accepted == TLCGet("stats").diameter - 1 = Len(Trace)
============================================================================
