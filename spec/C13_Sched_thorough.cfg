CONSTANTS MaxLines = 6
Caps = {0, 1, 2, 3}
SPECIFICATION SpecS
INVARIANTS Delivered Prefix ClosedOnce NoSendAfterClose EmitS
PROPERTY Termination
CHECK_DEADLOCK FALSE
