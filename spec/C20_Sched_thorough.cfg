CONSTANTS MaxK = 4
MaxCap = 3
Mode = "closefirst"
SPECIFICATION SpecS
INVARIANTS InOrder Outcome NoSendOnClosed EmitS
PROPERTY Termination
CHECK_DEADLOCK FALSE
