CONSTANTS Mode = "rna"
N = 6
TheoremN = 4
SPECIFICATION Spec
INVARIANTS Emit CanonInOrbit CanonConstant CaseBlind RnaDna
CHECK_DEADLOCK FALSE
