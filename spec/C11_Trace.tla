----------------------------- MODULE C11_Trace -----------------------------
(* I->S for C11: recorded calls of transform.ReverseComplement / Complement *)
(* / Reverse, checks.IsPalindromic and variants.AllVariantsIUPAC, judged    *)
(* against Nucleotides.tla.  Events:                                        *)
(*  [k|->"rc",  s, rc, comp, rev, pal, rcrc]   one string through all calls *)
(*  [k|->"cat", a, b, rca, rcb, rcab]          rc(a+b) = rc(b)+rc(a)        *)
(*  [k|->"var", s, vars, rc, varsrc]           expansion exact, once each,  *)
(*                                             and commuting with rc        *)
EXTENDS Nucleotides, Json, CSV, IOUtils
Trace == ndJsonDeserialize(IOEnv.TRACEFILE)
VARIABLES l
Range(q) == {q[i] : i \in 1..Len(q)}
HasU(s) == \E i \in 1..Len(s) : SubSeq(s, i, i) \in {"U", "u"}

JudgeRc(e) ==
    IF ~IsRCOf(e.rc, e.s) THEN "ReverseComplement differs from the set-semantics definition"
    ELSE IF ~IsComplementOf(e.comp, e.s) THEN "Complement differs from the definition"
    ELSE IF ~IsReverseOf(e.rev, e.s) THEN "Reverse differs from the definition"
    ELSE IF e.pal # (e.s = e.rc) THEN "IsPalindromic is not 'equals its own reverse complement'"
    ELSE IF ~HasU(e.s) /\ e.rcrc # e.s THEN "reverse complement does not undo itself"
    ELSE "ok"
JudgeCat(e) ==
    IF ~(IsRCOf(e.rca, e.a) /\ IsRCOf(e.rcb, e.b)) THEN "ReverseComplement differs from the definition"
    ELSE IF e.rcab # e.rcb \o e.rca THEN "rc(a+b) # rc(b)+rc(a)"
    ELSE "ok"
JudgeVar(e) ==
    LET w == Chars(e.s) IN
    IF Len(e.vars) # NumVariants(w) THEN "wrong number of variants"
    ELSE IF Cardinality(Range(e.vars)) # Len(e.vars) THEN "a variant is returned more than once"
    ELSE IF \E i \in 1..Len(e.vars) : ~IsVariantOf(e.vars[i], e.s) THEN "a returned variant is not denoted by the input"
    ELSE IF ~IsRCOf(e.rc, e.s) THEN "ReverseComplement differs from the definition"
    ELSE IF Range(e.varsrc) # {RC(v) : v \in Range(e.vars)} THEN "expansion does not commute with reverse complement"
    ELSE "ok"
(* [k|->"varbig", s, n, distinct, sample, err]: an expansion too large to hold here; n and distinct are counted by the *)
(* harness, the sampled variants are judged like any other                                                        *)
JudgeVarBig(e) ==
    IF e.err THEN "AllVariantsIUPAC rejects a string of IUPAC codes"
    ELSE IF e.n # NumVariants(Chars(e.s)) THEN "wrong number of variants"
    ELSE IF e.distinct # e.n THEN "a variant is returned more than once (harness-side count of distinct variants)"
    ELSE IF \E i \in 1..Len(e.sample) : ~IsVariantOf(e.sample[i], e.s) THEN "a returned variant is not denoted by the input"
    ELSE "ok"
Judge(e) == CASE e.k = "rc" -> JudgeRc(e) [] e.k = "cat" -> JudgeCat(e) [] e.k = "var" -> JudgeVar(e) [] e.k = "varbig" -> JudgeVarBig(e)

Init == l = 1
Next == /\ l <= Len(Trace)
        /\ LET r == Judge(Trace[l]) IN
             CSVWrite("%1$s", <<ToJson([l |-> l, v |-> IF r = "ok" THEN "ok" ELSE "bad", why |-> r])>>, IOEnv.VERDICTFILE)
        /\ l' = l + 1
Spec == Init /\ [][Next]_l
Accepted == TLCGet("stats").diameter - 1 = Len(Trace)
============================================================================
