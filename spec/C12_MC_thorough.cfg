CONSTANTS K = 2
N = 20
TheoremN = 9
SPECIFICATION Spec
INVARIANTS Emit FastAgrees IsRotation Minimal OneCanonical
CHECK_DEADLOCK FALSE
