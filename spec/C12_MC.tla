------------------------------ MODULE C12_MC ------------------------------
(* C12: exhaustive call/return model of seqhash.RotateSequence.            *)
(* The state graph is the tree of all strings over 0..K-1 up to length N   *)
(* (one state per string); the always-true invariant Emit evaluates the    *)
(* declarative definition on every state and writes one S->I case.        *)
EXTENDS Rotation, Json, CSV, IOUtils
CONSTANTS K, N, TheoremN
VARIABLE s
Init == s = <<>>
Next == \E c \in 0..K-1 : Len(s) < N /\ s' = Append(s, c)
Spec == Init /\ [][Next]_s

Expected(x) == IF Len(x) <= TheoremN THEN LeastRot(x) ELSE LeastRotFast(x)

Emit == CSVWrite("%1$s", <<ToJson([i |-> s, o |-> Expected(s)])>>, IOEnv.OUTFILE)

(* spec-level theorems, checked on every string up to TheoremN *)
FastAgrees   == Len(s) <= TheoremN => LeastRotFast(s) = LeastRot(s)
IsRotation   == Len(s) <= TheoremN => IsRotationOf(LeastRot(s), s) /\ Len(LeastRot(s)) = Len(s)
Minimal      == Len(s) <= TheoremN => \A q \in Rotations(s) : Leq(LeastRot(s), q)
OneCanonical == Len(s) <= TheoremN => \A q \in Rotations(s) : LeastRot(q) = LeastRot(s)
===========================================================================
