------------------------------ MODULE Seqhash ------------------------------
(* The seqhash identifier (version 1).                                      *)
(*                                                                          *)
(*   Hash(seq, type, circular, doubleStranded)                              *)
(*      = error                         if ~Accepts(...)                    *)
(*      = <<"v1", Tag, H(Canon)>>       otherwise                           *)
(*                                                                          *)
(* H is the digest; the specification only needs it to be injective, so the *)
(* abstract identifier is the pair <<Tag, Canon>> (the replayer instantiates*)
(* H with BLAKE3-256).  Canon is the upper-cased sequence (U read as T for  *)
(* RNA), rotated to its least rotation if circular, and replaced by the     *)
(* lesser of the two strands if double stranded.  Orbit is the brute-force  *)
(* set of all spellings of the same molecule; the theorems in C04_MC state  *)
(* that <<Tag, Canon>> is a complete invariant of Orbit.                    *)
(*                                                                          *)
(* Sequences are words: tuples of 1-letter strings.                         *)
EXTENDS Nucleotides, Rotation

Types == {"DNA", "RNA", "PROTEIN"}
NucAlphabetStr  == "ATUGCYRSWKMBDHVNZ"
ProtAlphabetStr == "ACDEFGHIKLMNPQRSTVWYUO*BXZ"
NucAlphabet  == {SubSeq(NucAlphabetStr, i, i) : i \in 1..Len(NucAlphabetStr)}
ProtAlphabet == {SubSeq(ProtAlphabetStr, i, i) : i \in 1..Len(ProtAlphabetStr)}

(* byte order of the upper-case letters and '*' *)
OrderStr == "*ABCDEFGHIJKLMNOPQRSTUVWXYZ"
OrdOf == [c \in {SubSeq(OrderStr, i, i) : i \in 1..Len(OrderStr)} |-> CHOOSE i \in 1..Len(OrderStr) : SubSeq(OrderStr, i, i) = c]
LetterOf(n) == SubSeq(OrderStr, n, n)
Ords(w) == [i \in 1..Len(w) |-> OrdOf[w[i]]]
Letters(o) == [i \in 1..Len(o) |-> LetterOf(o[i])]

UpperW(w) == [i \in 1..Len(w) |-> UpC(w[i])]
Normalize(w, type) == [i \in 1..Len(w) |-> LET c == UpC(w[i]) IN IF type = "RNA" /\ c = "U" THEN "T" ELSE c]

Accepts(w, type, circ, ds) ==
    /\ type \in Types
    /\ type \in {"DNA", "RNA"} => \A i \in 1..Len(w) : UpC(w[i]) \in NucAlphabet
    /\ type = "PROTEIN" => \A i \in 1..Len(w) : UpC(w[i]) \in ProtAlphabet
    /\ ~(type = "PROTEIN" /\ ds)

(* the strand clause is stated for the 15 IUPAC codes only (after normalisation: no U, no Z) *)
StrandDomain(w, type) == \A i \in 1..Len(w) : Normalize(w, type)[i] \in Codes

LeastW(w) == Letters(LeastRotFast(Ords(w)))
MinW(a, b) == IF Leq(Ords(a), Ords(b)) THEN a ELSE b
Canon(w, type, circ, ds) ==
    LET n == Normalize(w, type) IN
    CASE circ /\ ds   -> MinW(LeastW(n), LeastW(RCW(n)))
      [] circ /\ ~ds  -> LeastW(n)
      [] ~circ /\ ds  -> MinW(n, RCW(n))
      [] OTHER        -> n
Tag(type, circ, ds) == (CASE type = "DNA" -> "D" [] type = "RNA" -> "R" [] type = "PROTEIN" -> "P")
                       \o (IF circ THEN "C" ELSE "L") \o (IF ds THEN "D" ELSE "S")

(* all normalised spellings of the molecule denoted by w *)
Orbit(w, type, circ, ds) ==
    LET n == Normalize(w, type)
        R(x) == IF circ THEN Rotations(x) ELSE {x}
    IN R(n) \cup (IF ds THEN R(RCW(n)) ELSE {})
=============================================================================
