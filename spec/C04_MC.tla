------------------------------ MODULE C04_MC ------------------------------
(* C04 + C05: exhaustive call/return model of seqhash.Hash.                 *)
(* One state per word over Alphabet (Mode) up to length N.  Emit writes,    *)
(* per word, one S->I case for every (type, circular, doubleStranded) in    *)
(* the mode's domain: accept?, tag, canonical representative.               *)
(* Theorems (words up to TheoremN):                                         *)
(*   CanonInOrbit    Canon(w) is a spelling of w's molecule, hence equal    *)
(*                   Canon => same orbit            (C05 separation)       *)
(*   CanonConstant   every spelling in the orbit has the same Canon         *)
(*                   (C04 invariance under rotation / strand)               *)
(*   CaseBlind       Canon ignores letter case       (C04)                  *)
(*   RnaDna          an RNA spelling and its DNA spelling have the same     *)
(*                   Canon and tags that differ only in the type letter     *)
EXTENDS Seqhash, Json, CSV, IOUtils
CONSTANTS Mode, N, TheoremN
Printable == " !\"#$%&'()+,-./0123456789:;<=>?@[\\]^_`{|}~"   \* every printable non-letter except '*'
Alphabet == CASE Mode = "dna"     -> {"A", "C", "G", "T"}
              [] Mode = "rna"     -> {"A", "C", "G", "U"}
              [] Mode = "iupac"   -> Codes \cup {"U"}
              [] Mode = "nucfull" -> NucAlphabet \cup {"a", "u", "n"}
              [] Mode = "dnau"    -> {"A", "C", "G", "T", "U", "W", "S", "N"}   \* C05 value clause only, see InDomain
              [] Mode = "protein" -> ProtAlphabet
              [] Mode = "invalid" -> {SubSeq(Printable, i, i) : i \in 1..Len(Printable)} \cup UpperSet \cup LowerSet \cup {"*"}
TypesTried == IF Mode = "invalid" THEN {"DNA", "RNA", "PROTEIN", "dna", "", "Protein", "XNA"}
              ELSE IF Mode = "protein" THEN {"PROTEIN"} ELSE {"DNA", "RNA"}
VARIABLE w
Init == w = <<>>
Next == \E c \in Alphabet : Len(w) < N /\ w' = Append(w, c)
Spec == Init /\ [][Next]_w

(* The strand clauses of C04 / C05 (invariance, separation) are stated without U under type DNA: the   *)
(* complement table sends U to A and A to T, so "the other strand" of a DNA duplex spelled with U is  *)
(* not a symmetric notion.  C05's VALUE clause (tag + digest of the canonical representative, here    *)
(* the lesser of the text and its reverse complement as that table gives it) is stated for every      *)
(* accepted input; mode "dnau" emits those cases, its configurations check no orbit theorem.          *)
InDomain(type, circ, ds) == Mode = "dnau" \/ (ds /\ type \in {"DNA", "RNA"} => StrandDomain(w, type))
OneCase(type, circ, ds) ==
    [type |-> type, circ |-> circ, ds |-> ds,
     accept |-> Accepts(w, type, circ, ds),
     tag |-> IF Accepts(w, type, circ, ds) THEN Tag(type, circ, ds) ELSE "",
     canon |-> IF Accepts(w, type, circ, ds) THEN Join(Canon(w, type, circ, ds)) ELSE ""]
Combos == {<<t, c, d>> \in TypesTried \X BOOLEAN \X BOOLEAN : InDomain(t, c, d)}
Emit == CSVWrite("%1$s", <<ToJson([s |-> Join(w),
                                   cases |-> {OneCase(x[1], x[2], x[3]) : x \in Combos}])>>, IOEnv.OUTFILE)

Checked == {x \in Combos : x[1] \in Types /\ Accepts(w, x[1], x[2], x[3])}
CanonInOrbit == Len(w) <= TheoremN => \A x \in Checked : Canon(w, x[1], x[2], x[3]) \in Orbit(w, x[1], x[2], x[3])
CanonConstant == Len(w) <= TheoremN => \A x \in Checked : \A v \in Orbit(w, x[1], x[2], x[3]) :
                      Canon(v, x[1], x[2], x[3]) = Canon(w, x[1], x[2], x[3])
CaseBlind == Len(w) <= TheoremN => \A x \in Checked :
                 Canon([i \in 1..Len(w) |-> LoC(w[i])], x[1], x[2], x[3]) = Canon(w, x[1], x[2], x[3])
RnaDna == Len(w) <= TheoremN => \A c, d \in BOOLEAN :
             (<<"RNA", c, d>> \in Checked /\ <<"DNA", c, d>> \in Checked) =>
                LET dnaSpelling == Normalize(w, "RNA") IN
                  /\ Canon(w, "RNA", c, d) = Canon(dnaSpelling, "DNA", c, d)
                  /\ SubSeq(Tag("RNA", c, d), 2, 3) = SubSeq(Tag("DNA", c, d), 2, 3)
===========================================================================
