------------------------------ MODULE C09_MC ------------------------------
(* C09, functional layer: one state per abstract fragment pool (a sequence  *)
(* of up to K fragments over M overhang symbols and their complements, in   *)
(* non-decreasing order so that each multiset is visited once).  Emitted    *)
(* per pool: every ring (Ligation!Rings) and whether the as-built search    *)
(* diverges (deviation C09-unbounded-spawn).  The replayer turns the pool   *)
(* into DNA parts and runs clone.GoldenGate.  Theorems: rings do not depend *)
(* on the orientation in which a fragment is supplied nor on input order.   *)
EXTENDS Ligation, Json, CSV, IOUtils, SequencesExt
CONSTANTS K, TheoremK
VARIABLE pool
FragTypes == {<<f, r>> : f \in Ov, r \in Ov}
Code2(t) == t[1] * 100 + t[2]
Init == pool = <<>>
Next == /\ Len(pool) < K
        /\ \E t \in FragTypes : (IF Len(pool) = 0 THEN TRUE ELSE Code2(t) >= Code2(<<pool[Len(pool)].f, pool[Len(pool)].r>>))
                                /\ pool' = Append(pool, [f |-> t[1], r |-> t[2], b |-> Len(pool) + 1])
Spec == Init /\ [][Next]_pool

Emit == Len(pool) >= 1 =>
    LET R == Rings(pool)
        rl == SetToSeq(R) IN
    CSVWrite("%1$s", <<ToJson([m |-> M, pool |-> pool,
                               rings |-> [i \in 1..Len(rl) |-> [j \in 1..Len(rl[i]) |-> [i |-> rl[i][j][1], d |-> rl[i][j][2]]]],
                               molecules |-> Cardinality({Spellings(p) : p \in R}),
                               diverges |-> AsBuiltDiverges(pool)])>>, IOEnv.OUTFILE)

(* supplying fragment k the other way round does not change the set of molecules *)
FlipAt(k) == [i \in 1..Len(pool) |-> IF i = k THEN [f |-> Co(pool[i].r), r |-> Co(pool[i].f), b |-> pool[i].b] ELSE pool[i]]
Bodies(p) == [i \in 1..Len(p) |-> p[i][1]]
MolBodies(pl) == {{Bodies(q) : q \in S} : S \in Molecules(pl)}
OrientationFree == (Len(pool) >= 1 /\ Len(pool) <= TheoremK) =>
                      \A k \in 1..Len(pool) : Cardinality(Molecules(FlipAt(k))) = Cardinality(Molecules(pool))
Reversed == [i \in 1..Len(pool) |-> pool[Len(pool) + 1 - i]]
OrderFree == (Len(pool) >= 1 /\ Len(pool) <= TheoremK) => Cardinality(Molecules(Reversed)) = Cardinality(Molecules(pool))
===========================================================================
