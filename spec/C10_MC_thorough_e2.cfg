CONSTANTS EnzymeName = "e2"
N = 10
TheoremN = 8
SPECIFICATION Spec
INVARIANTS Emit RotationInvariant LinearInside
CHECK_DEADLOCK FALSE
