CONSTANTS EnzymeName = "e4"
N = 10
TheoremN = 7
SPECIFICATION Spec
INVARIANTS Emit RotationInvariant LinearInside
CHECK_DEADLOCK FALSE
