CONSTANTS Ids08 = {1, 2, 11}
H = 3
Depth = 4
DeepCopyGet = TRUE
Cuts = {0, 1000}
SPECIFICATION Spec
VIEW View
INVARIANTS NoCrossId CodePreserved Pristine Independence
CHECK_DEADLOCK FALSE
