------------------------------ MODULE C11_MC ------------------------------
(* C11: exhaustive call/return model of transform.ReverseComplement /       *)
(* Complement / Reverse, checks.IsPalindromic and variants.AllVariantsIUPAC *)
(* One state per word over Alphabet up to length N.  Emit writes the S->I   *)
(* case; the other invariants are the property's clauses as theorems about  *)
(* the definitions (so a wrong definition fails here, not on the code).     *)
EXTENDS Nucleotides, SequencesExt, Json, CSV, IOUtils
CONSTANTS Mode, N, VarN
Alphabet == CASE Mode = "upper" -> Codes [] Mode = "mixed" -> AllCodes [] Mode = "withU" -> WithU
VARIABLE w
Init == w = <<>>
Next == \E c \in Alphabet : Len(w) < N /\ w' = Append(w, c)
Spec == Init /\ [][Next]_w

NoU == \A i \in 1..Len(w) : w[i] \notin {"U", "u"}
Case == [s |-> Join(w), rc |-> Join(RCW(w)), comp |-> Join(ComplementW(w)), rev |-> Join(ReverseW(w)),
         pal |-> IsPalindromicW(w),
         vars |-> IF NoU /\ Len(w) <= VarN THEN (LET q == SetToSeq(VariantsW(w)) IN [i \in 1..Len(q) |-> Join(q[i])]) ELSE <<>>,
         hasvars |-> NoU /\ Len(w) <= VarN]
Emit == CSVWrite("%1$s", <<ToJson(Case)>>, IOEnv.OUTFILE)

(* the clauses of the property, on the definitions *)
LengthCase   == Len(RCW(w)) = Len(w) /\ \A i \in 1..Len(w) : IsLowerC(RCW(w)[i]) = IsLowerC(w[Len(w) + 1 - i])
RCIsRevComp  == RCW(w) = ReverseW(ComplementW(w)) /\ RCW(w) = ComplementW(ReverseW(w))
Involution   == NoU => RCW(RCW(w)) = w
AntiHom      == \A k \in 0..Len(w) : RCW(w) = RCW(SubSeq(w, k + 1, Len(w))) \o RCW(SubSeq(w, 1, k))
PalFix       == IsPalindromicW(w) <=> (w = ReverseW(ComplementW(w)))
VariantsExact == (NoU /\ Len(w) <= VarN) =>
                   /\ Cardinality(VariantsW(w)) = NumVariants(w)
                   /\ VariantsW(RCW(w)) = {RCW(v) : v \in VariantsW(w)}     \* expansion commutes with RC
                   /\ \A i \in 1..Len(w) : CodeSet[UpC(Comp(w[i]))] = {BaseComp[b] : b \in CodeSet[UpC(w[i])]}
===========================================================================
