---------------------------- MODULE C09_Designed ----------------------------
(* C09, designed assemblies: J junctions (slots) closing one ring, 1..MaxAlt  *)
(* alternative fragments per slot (a library), 0..2 dead-end decoys attached  *)
(* to a junction of the ring, fragments supplied in either orientation.       *)
(* One state per design; emitted like C09_MC: the pool and every ring.        *)
(* Theorem: the number of distinct molecules is the product of the numbers    *)
(* of alternatives (decoys add none).                                         *)
EXTENDS Ligation, Json, CSV, IOUtils, SequencesExt
CONSTANTS MaxJ, MaxAlt
VARIABLES J, alts, decoys, flipmode, ready
vars == <<J, alts, decoys, flipmode, ready>>
Init == J = 0 /\ alts = <<>> /\ decoys = 0 /\ flipmode = 0 /\ ready = FALSE
Next == /\ ~ready
        /\ \E j \in 1..MaxJ, d \in 0..2, fm \in 0..2 : \E a \in [1..j -> 1..MaxAlt] :
              J' = j /\ alts' = a /\ decoys' = d /\ flipmode' = fm /\ ready' = TRUE
Spec == Init /\ [][Next]_vars
(* junction k joins slot k-1 to slot k; slot k carries overhang k -> (k % J) + 1; decoy overhangs are J+1, J+2 *)
SlotFrag(k) == [f |-> k, r |-> (k % J) + 1]
Flip(fr) == [f |-> Co(fr.r), r |-> Co(fr.f)]
RECURSIVE SlotList(_)
SlotList(k) == IF k > J THEN <<>> ELSE [i \in 1..alts[k] |-> SlotFrag(k)] \o SlotList(k + 1)
DecoyList == [i \in 1..decoys |-> [f |-> 1, r |-> J + i]]          \* forward end fits junction 1, reverse end leads nowhere
Raw == SlotList(1) \o DecoyList
Supplied(i) == CASE flipmode = 0 -> Raw[i] [] flipmode = 1 -> (IF i % 2 = 0 THEN Flip(Raw[i]) ELSE Raw[i]) [] flipmode = 2 -> Flip(Raw[i])
Pool == [i \in 1..Len(Raw) |-> [f |-> Supplied(i).f, r |-> Supplied(i).r, b |-> i]]
RECURSIVE Prod(_)
Prod(k) == IF k > J THEN 1 ELSE alts[k] * Prod(k + 1)
MolsOf(R) == {Spellings(p) : p \in R}
Check == ready =>
    LET pl == Pool
        R == Rings(pl)
        rl == SetToSeq(R)
        nm == Cardinality(MolsOf(R)) IN
    /\ nm = Prod(1)
    /\ CSVWrite("%1$s", <<ToJson([m |-> M, pool |-> pl,
                                   rings |-> [i \in 1..Len(rl) |-> [j \in 1..Len(rl[i]) |-> [i |-> rl[i][j][1], d |-> rl[i][j][2]]]],
                                   molecules |-> nm, diverges |-> AsBuiltDiverges(pl)])>>, IOEnv.OUTFILE)
=============================================================================
