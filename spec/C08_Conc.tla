------------------------------ MODULE C08_Conc ------------------------------
(* C08, concurrency clause: goroutines re-weighting default codon tables of   *)
(* pairwise DIFFERENT ids at the same time.  OptimizeTable is not atomic: it  *)
(* writes the weights amino acid by amino acid through the table's slices.    *)
(* A process p re-weights table Id[p]; one step writes the cells of one amino *)
(* acid.  store maps an id to the address of its weight cells; Shared = TRUE  *)
(* is the hypothetical layout in which ids with identical genetic codes (1    *)
(* and 11) share their cells.                                                 *)
(*   RaceFree      no cell is ever written by two different processes         *)
(*   Outcome       when all are done, every default table holds exactly the   *)
(*                 counts of the process that re-weighted it, the others are   *)
(*                 untouched - whatever the interleaving                       *)
EXTENDS Integers, Sequences, FiniteSets, TLC
CONSTANTS Procs, Groups, Shared
Id == [p \in Procs |-> p]                       \* process p works on table id p
Ids == Procs \cup {0}                           \* id 0 is never touched
Addr(i) == IF Shared /\ i = 11 THEN 1 ELSE i    \* address of the cells of table i
VARIABLES cells, writer, pc
vars == <<cells, writer, pc>>
(* cells[a][g] = weight value written for amino-acid group g at address a; "one" = pristine *)
Init == /\ cells = [a \in {Addr(i) : i \in Ids} |-> [g \in 1..Groups |-> "one"]]
        /\ writer = [a \in {Addr(i) : i \in Ids} |-> [g \in 1..Groups |-> {}]]
        /\ pc = [p \in Procs |-> 1]
Write(p) == /\ pc[p] <= Groups
            /\ cells' = [cells EXCEPT ![Addr(Id[p])][pc[p]] = <<"count", p>>]
            /\ writer' = [writer EXCEPT ![Addr(Id[p])][pc[p]] = @ \cup {p}]
            /\ pc' = [pc EXCEPT ![p] = @ + 1]
Next == \E p \in Procs : Write(p)
Spec == Init /\ [][Next]_vars
RaceFree == \A a \in DOMAIN writer : \A g \in 1..Groups : Cardinality(writer[a][g]) <= 1
Done == \A p \in Procs : pc[p] > Groups
Outcome == Done => /\ \A p \in Procs : \A g \in 1..Groups : cells[Addr(Id[p])][g] = <<"count", p>>
                   /\ \A g \in 1..Groups : cells[Addr(0)][g] = "one"
=============================================================================
