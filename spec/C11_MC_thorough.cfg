CONSTANTS Mode = "upper"
N = 5
VarN = 4
SPECIFICATION Spec
INVARIANTS Emit LengthCase RCIsRevComp Involution AntiHom PalFix VariantsExact
CHECK_DEADLOCK FALSE
