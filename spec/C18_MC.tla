------------------------------ MODULE C18_MC ------------------------------
(* C18: combining codon tables (value layer of CodonTables.tla).            *)
(* One state per (genetic code, weighting a, weighting b, cut-off): the     *)
(* specification's AddW and CompW (nominal value, Wild cells where the      *)
(* property allows +/-1 slack to flip a zeroing or the total weight of an   *)
(* amino acid is 0) are emitted as S->I cases; the clauses of the property  *)
(* are invariants on the definitions.  Cut-offs are integers on the 10000   *)
(* scale plus an infinitesimal eps in -1..1 (the replayer passes           *)
(* cut/10000 + eps*1e-9); the real number outside [0,1] => error.           *)
EXTENDS CodonTables, Sequences, Json, CSV, IOUtils
CONSTANTS Ids18, Tier
Cuts18 == IF Tier = "quick" THEN {-1, 0, 1, 1000, 10000, 10001}
          ELSE {-10000, -1, 0, 1, 312, 500, 999, 1000, 1001, 1111, 2500, 5000, 9999, 10000, 10001, 20000}
AllCodons == "TTTTTCTTATTGTCTTCCTCATCGTATTACTAATAGTGTTGCTGATGGCTTCTCCTACTGCCTCCCCCACCGCATCACCAACAGCGTCGCCGACGGATTATCATAATGACTACCACAACGAATAACAAAAAGAGTAGCAGAAGGGTTGTCGTAGTGGCTGCCGCAGCGGATGACGAAGAGGGTGGCGGAGGG"
(* the coding sequences are literal constants: TLC evaluates a constant definition once only if it
   involves no RECURSIVE operator *)
Q1 == AllCodons                                                          \* uniform
Q2 == AllCodons \o "ATGATGGCTGCTGCTGCAAAAAAGTAA"
Q3 == AllCodons \o AllCodons \o "CTGCTGCTGCTGCTGCTTGAAGAAGAGTGATGA"
(* 1:9 and 1:10 style boundaries for two-codon amino acids: TTT x1 + TTC x9, AAA x1 + AAG x10, GAA x11 + GAG x89 *)
Q4 == AllCodons \o "TTCTTCTTCTTCTTCTTCTTCTTCAAGAAGAAGAAGAAGAAGAAGAAGAAGGAAGAAGAAGAAGAAGAAGAAGAAGAAGAAGAGGAGGAGGAGGAGGAGGAGGAGGAGGAGGAGGAGGAGGAGGAGGAGGAGGAGGAGGAGGAGGAGGAGGAGGAGGAGGAGGAGGAGGAGGAGGAGGAGGAGGAGGAGGAGGAGGAGGAGGAGGAGGAGGAGGAGGAGGAGGAGGAGGAGGAGGAGGAGGAGGAGGAGGAGGAGGAGGAGGAGGAGGAGGAGGAGGAGGAGGAGGAGGAGGAGGAGGAGGAGGAGGAGGAGGAGGAGGAGGAGGAGGAGGAGGAGGAGGAGGAG"
Q5 == AllCodons \o "CTGCTGCTGCTGCTGCTGCTGCTGCTGCTGCTGCTGCTGCTGCTGCTGCTGCTGCTGCTGCTGCTGCTGCTGCTGCTGCTGCTGCTGCTGCTGCTGCTGCTGCTGCTGCTGTCTTCTTCTTCTTCTTCTTCTTCTTCTTCTTCTTCTTCTAGCAGCAGCAGCAGCAGCAGCCGTCGTCGTCGTCGTCGTCGTCGTCGTCGTCGTCGTCGTCGTCGTCGTCGTCGTCGTCGTCGTCGTCGTGGCGGCGGCGGCGGCGGCGGCGGCGGCGGCGGCATTATTATTATTATT"
Q6 == "ATGAAATTTGGGTAA"                                                  \* outside the domain: most amino acids do not occur
W1 == Count(Q1)
W2 == Count(Q2)
W3 == Count(Q3)
W4 == Count(Q4)
W5 == Count(Q5)
W6 == Count(Q6)
Ws == <<W1, W2, W3, W4, W5, W6>>
(* cut-offs a hair outside / inside the closed interval, and a hair off an interior value *)
Eps18 == {<<0, -1>>, <<0, 1>>, <<10000, -1>>, <<10000, 1>>, <<1000, -1>>, <<1000, 1>>, <<-1, 1>>, <<10001, -1>>}
CutPairs == {<<c, 0>> : c \in Cuts18} \cup Eps18
VARIABLES id, ia, cut, eps, va, vb, sum, comp
vars == <<id, ia, cut, eps, va, vb, sum, comp>>
(* a dummy root fans out over the first operand (so that TLC's workers share the work); each leaf state *)
(* holds the operands and the specification's results as tabulated state values                       *)
Init == id = 0 /\ ia = 0 /\ cut = 0 /\ eps = 0 /\ va = Zeros /\ vb = Zeros /\ sum = Zeros /\ comp = Zeros
IsErrC(c, e) == c < 0 \/ c > 10000 \/ (c = 0 /\ e < 0) \/ (c = 10000 /\ e > 0)
Next == \/ id = 0 /\ ia = 0 /\ ia' \in 1..Len(Ws) /\ UNCHANGED <<id, cut, eps, va, vb, sum, comp>>
        \/ /\ id = 0 /\ ia # 0
           /\ \E i \in Ids18, jb \in 1..Len(Ws), ce \in CutPairs : LET c == ce[1] IN
                 /\ id' = i /\ cut' = c /\ eps' = ce[2] /\ va' = Ws[ia] /\ vb' = Ws[jb]
                 /\ sum' = AddW(Ws[ia], Ws[jb])
                 /\ comp' = IF IsErrC(c, ce[2]) THEN Zeros ELSE CompW(i, Ws[ia], Ws[jb], c)
           /\ UNCHANGED ia
Spec == Init /\ [][Next]_vars

IsErr == IsErrC(cut, eps)
Defined(c) == Total(id, va, Code[id][c]) > 0 /\ Total(id, vb, Code[id][c]) > 0
(* emission and the clauses of the property as theorems on the definitions *)
Check == id # 0 =>
    /\ CSVWrite("%1$s", <<ToJson([id |-> id, wa |-> Sparse(va), wb |-> Sparse(vb), cut |-> cut, eps |-> eps, err |-> IsErr,
                                   add |-> Sparse(sum), comp |-> Sparse(comp)])>>, IOEnv.OUTFILE)
    /\ \A c \in Codons : sum[c] = va[c] + vb[c]                                 \* AddIsSum
    /\ ~IsErr =>
         /\ comp = CompW(id, vb, va, cut)                                         \* Symmetric
         /\ \A c \in Codons : Defined(c) =>                                       \* Zeroing / averaging
               LET sa == ShareOf(id, va, c) sb == ShareOf(id, vb, c) IN
               /\ (sa < cut - 1 \/ sb < cut - 1) => comp[c] = 0
               /\ (sa > cut + 1 /\ sb > cut + 1) => comp[c] = (sa + sb) \div 2
         (* a gene optimised with the compromise table never uses a codon rarer than the cut-off (minus slack) in either organism *)
         /\ \A aa \in LettersOf(id) : (\A c \in CodonsOf(id, aa) : comp[c] # Wild) =>
               \A c \in Eligible(id, comp, aa) : ShareOf(id, va, c) >= cut - 1 /\ ShareOf(id, vb, c) >= cut - 1
===========================================================================
