CONSTANTS Mode = "protein"
N = 2
TheoremN = 2
SPECIFICATION Spec
INVARIANTS Emit CanonInOrbit CanonConstant CaseBlind RnaDna
CHECK_DEADLOCK FALSE
