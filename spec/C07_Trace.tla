----------------------------- MODULE C07_Trace -----------------------------
(* I->S for C07: recorded calls of codon.Optimize.                          *)
(*  [k|->"opt", id, w, protein, res, dna]   w: observed weights of the table *)
(*     (sparse); res = "ok" | "error" | "panic".  The specification:         *)
(*     - if every residue has a non-empty Eligible set: res = "ok", dna has  *)
(*       three bases per residue and its i-th codon is in Eligible(residue)  *)
(*       (hence translates back to the protein);                             *)
(*     - otherwise: res = "error" ("panic" is deviation C07-unencodable-     *)
(*       residue-panics).                                                    *)
EXTENDS CodonTables, Sequences, Json, CSV, IOUtils
Trace == ndJsonDeserialize(IOEnv.TRACEFILE)
VARIABLES l
FromSparse(sp) == [c \in Codons |-> IF c \in DOMAIN sp.x THEN sp.x[c] ELSE sp.d]
Judge(e) ==
    LET w == FromSparse(e.w) n == Len(e.protein)
        letters == {SubSeq(e.protein, i, i) : i \in 1..n}
        elig == [aa \in letters |-> IF aa \in LettersOf(e.id) THEN Eligible(e.id, w, aa) ELSE {}]
        encodable == \A aa \in letters : elig[aa] # {} IN
    IF ~encodable THEN (IF e.res = "error" THEN "ok"
                        ELSE IF e.res = "panic" THEN "dev:C07-unencodable-residue-panics"
                        ELSE "a protein with an unencodable residue was not rejected")
    ELSE IF e.res # "ok" THEN "an encodable protein was rejected (" \o e.res \o ")"
    ELSE IF Len(e.dna) # 3 * n THEN "optimised gene is not three bases per residue"
    ELSE IF \E i \in 1..n : SubSeq(e.dna, 3 * i - 2, 3 * i) \notin elig[SubSeq(e.protein, i, i)]
         THEN "an emitted codon is not eligible (wrong amino acid, zero weight or usage share <= 10 %)"
    ELSE "ok"
Init == l = 1
Next == /\ l <= Len(Trace)
        /\ LET r == Judge(Trace[l]) IN
             CSVWrite("%1$s", <<ToJson([l |-> l, v |-> IF r = "ok" \/ SubSeq(r, 1, 4) = "dev:" THEN r ELSE "bad", why |-> r])>>, IOEnv.VERDICTFILE)
        /\ l' = l + 1
Spec == Init /\ [][Next]_l
Accepted == TLCGet("stats").diameter - 1 = Len(Trace)
============================================================================
