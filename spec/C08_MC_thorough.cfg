CONSTANTS Ids08 = {1, 2, 11}
H = 3
Depth = 5
DeepCopyGet = FALSE
Cuts = {0, 1000}
SPECIFICATION Spec
VIEW View
ACTION_CONSTRAINT EmitEdge
INVARIANTS EmitCodes NoCrossId CodePreserved
CHECK_DEADLOCK FALSE
