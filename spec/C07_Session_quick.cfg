CONSTANTS IdsS = {1, 11}
MaxLen = 2
SPECIFICATION Spec
INVARIANTS Check
PROPERTIES UseIsPure
CHECK_DEADLOCK FALSE
