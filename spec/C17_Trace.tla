----------------------------- MODULE C17_Trace -----------------------------
(* I->S for C17: recorded calls of primers.NucleobaseDeBruijnSequence and   *)
(* CreateBarcodes[WithBannedSequences].                                     *)
(*  [k|->"db", n, s]                                  the sequence of order n*)
(*  [k|->"bar", n, len, bans, filters, list, idx]     a barcode list; idx[i] *)
(*        = offset of barcode i in the order-n sequence (found by the        *)
(*        harness, verified here); the order-n sequence is the most recent   *)
(*        "db" event of that order (state).                                  *)
EXTENDS Barcodes, Sequences, Json, CSV, IOUtils
Trace == ndJsonDeserialize(IOEnv.TRACEFILE)
VARIABLES l, dbs, dbok
vars == <<l, dbs, dbok>>
RangeOf(q) == {q[i] : i \in 1..Len(q)}
Judge(e) ==
    IF e.k = "db" THEN (IF dbok'[e.n] THEN "ok" ELSE "not a De Bruijn sequence of that order (length 4^n+n-1, every n-letter word exactly once)")
    ELSE IF e.n \notin DOMAIN dbs THEN "harness: no sequence of that order logged"
    ELSE IF ~dbok[e.n] THEN "ok"                        \* already reported at the db event
    ELSE IF ListOK(dbs[e.n], e.n, e.len, RangeOf(e.bans), RangeOf(e.filters), e.list, e.idx) THEN "ok"
    ELSE IF \E i \in 1..Len(e.list) : ~Clean(e.list[i], RangeOf(e.bans), RangeOf(e.filters))
         THEN "a barcode contains a banned sequence, the reverse complement of one, or is rejected by a filter"
    ELSE "a barcode has the wrong length, is not a substring of the De Bruijn sequence, or two barcodes share an n-letter word"
Init == l = 1 /\ dbs = <<>> /\ dbok = <<>>
Next == /\ l <= Len(Trace)
        /\ LET e == Trace[l] IN
             /\ dbs' = IF e.k = "db" THEN (e.n :> e.s) @@ dbs ELSE dbs
             /\ dbok' = IF e.k = "db" THEN (e.n :> IsDeBruijn(e.s, e.n)) @@ dbok ELSE dbok
             /\ LET r == Judge(e) IN CSVWrite("%1$s", <<ToJson([l |-> l, v |-> IF r = "ok" THEN "ok" ELSE "bad", why |-> r])>>, IOEnv.VERDICTFILE)
        /\ l' = l + 1
Spec == Init /\ [][Next]_vars
Accepted == TLCGet("stats").diameter - 1 = Len(Trace)
============================================================================
