----------------------------- MODULE C13_Sched -----------------------------
(* Directed schedules for C13 (S->I): the machine of C13_MC seen from the   *)
(* two places where a harness can steer the real parser without touching   *)
(* it - the io.Reader that feeds it (one line per Read, handed out only    *)
(* when the schedule says so) and the consumer of its channel.  Steps of    *)
(* the producer that need neither (a buffered send with room, the close)    *)
(* are taken eagerly: a controller step is enabled only when the producer   *)
(* is quiescent (waiting for input, blocked in a send, or finished).        *)
(* sched records the controller steps with the quiescent producer state     *)
(* each one starts from; TLC enumerates every such schedule for every file  *)
(* and capacity, and the replayer drives fasta.ParseConcurrent through it.  *)
(*   line       the reader hands out the next line                          *)
(*   eof        the reader reports end of input                             *)
(*   recv       the consumer takes a record out of the buffer               *)
(*   rv         the consumer takes a record by rendezvous (capacity 0)      *)
(*   seeclosed  the consumer finds the channel closed and drained           *)
EXTENDS C13_MC
VARIABLE sched
svars == <<vars, sched>>
InternalEnabled == \/ pc \in {"send", "sendlast"} /\ cap > 0 /\ Len(chan) < cap /\ ~closed
                   \/ pc = "close"
Step(op) == sched' = Append(sched, [op |-> op, pc |-> pc, n |-> Len(chan)])
InitS == Init /\ sched = <<>>
NextS == \/ (SendBuf \/ Close) /\ UNCHANGED sched
         \/ /\ ~InternalEnabled
            /\ \/ Scan /\ Step("line")
               \/ Eof /\ Step("eof")
               \/ Recv /\ Step("recv")
               \/ SendRv /\ Step("rv")
               \/ SeeClosed /\ Step("seeclosed")
SpecS == InitS /\ [][NextS]_svars /\ WF_svars(NextS)
EmitS == cdone => CSVWrite("%1$s", <<ToJson([lines |-> Text(file), cap |-> cap, sched |-> sched,
                                             records |-> Records(Text(file))])>>, IOEnv.OUTFILE)
(* the restriction to eager internal steps loses no outcome: the same theorems hold *)
============================================================================
