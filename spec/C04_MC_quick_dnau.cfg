CONSTANTS Mode = "dnau"
N = 4
TheoremN = 0
SPECIFICATION Spec
INVARIANTS Emit
CHECK_DEADLOCK FALSE
