----------------------------- MODULE C13_Trace -----------------------------
(* I->S for C13: recorded runs of fasta.Build/Write and the FASTA readers.  *)
(*  [k|->"rt", via, cap, written, got, closes, panic]                       *)
(*      records written with fasta.Build / fasta.Write and read back via    *)
(*      Parse / Read / ReadGz / ParseConcurrent (channel capacity cap, a    *)
(*      randomly stalled consumer): got must equal written, the channel     *)
(*      must have been closed exactly once, nothing may panic               *)
(*  [k|->"layout", via, cap, lines, got, closes, panic]                     *)
(*      text laid out by the harness's own writer (wrapping, blank and ';'  *)
(*      lines, CRLF, gzip - the lines are logged after line-end removal):   *)
(*      got must equal FastaStream!Records(lines)                           *)
EXTENDS FastaStream, Sequences, Json, CSV, IOUtils
Trace == ndJsonDeserialize(IOEnv.TRACEFILE)
VARIABLES l
Judge(e) ==
    IF e.panic THEN "the parser panicked (" \o e.msg \o ")"
    ELSE IF e.closes # 1 THEN "the stream's channel was not closed exactly once"
    ELSE IF e.k = "rt" THEN (IF e.got = e.written THEN "ok" ELSE "records read back differ from the records written")
    ELSE IF ~InDomain(e.lines) THEN "ok"
    ELSE IF e.got = Records(e.lines) THEN "ok" ELSE "parse result differs from the records the file states"
Init == l = 1
Next == /\ l <= Len(Trace)
        /\ LET r == Judge(Trace[l]) IN
             CSVWrite("%1$s", <<ToJson([l |-> l, v |-> IF r = "ok" THEN "ok" ELSE "bad", why |-> r])>>, IOEnv.VERDICTFILE)
        /\ l' = l + 1
Spec == Init /\ [][Next]_l
Accepted == TLCGet("stats").diameter - 1 = Len(Trace)
============================================================================
