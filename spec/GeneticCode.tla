---------------------------- MODULE GeneticCode ----------------------------
(* The NCBI genetic codes ("gc.prt") offered by poly: ids 1-6, 9-14, 16,    *)
(* 21-31, 33.  The standard code is written as amino acid -> codon set;     *)
(* every other code as the standard code plus NCBI's published              *)
(* reassignments; start and stop codons as codon lists.  (poly stores 64-   *)
(* letter strings instead, so nothing here can be a copy of its tables.)    *)
(* A codon listed as a stop AND given a sense assignment (codes 27, 28, 31: *)
(* context-dependent stops) translates to the sense amino acid, as in       *)
(* NCBI's own tables.                                                       *)
EXTENDS Str, FiniteSets

B4 == <<"T", "C", "A", "G">>
Codons == {B4[i] \o B4[j] \o B4[k] : i, j, k \in 1..4}

StandardSets ==
  [aa \in {"F","L","S","Y","*","C","W","P","H","Q","R","I","M","T","N","K","V","A","D","E","G"} |->
   CASE aa = "F" -> {"TTT","TTC"}
     [] aa = "L" -> {"TTA","TTG","CTT","CTC","CTA","CTG"}
     [] aa = "S" -> {"TCT","TCC","TCA","TCG","AGT","AGC"}
     [] aa = "Y" -> {"TAT","TAC"}
     [] aa = "*" -> {"TAA","TAG","TGA"}
     [] aa = "C" -> {"TGT","TGC"}
     [] aa = "W" -> {"TGG"}
     [] aa = "P" -> {"CCT","CCC","CCA","CCG"}
     [] aa = "H" -> {"CAT","CAC"}
     [] aa = "Q" -> {"CAA","CAG"}
     [] aa = "R" -> {"CGT","CGC","CGA","CGG","AGA","AGG"}
     [] aa = "I" -> {"ATT","ATC","ATA"}
     [] aa = "M" -> {"ATG"}
     [] aa = "T" -> {"ACT","ACC","ACA","ACG"}
     [] aa = "N" -> {"AAT","AAC"}
     [] aa = "K" -> {"AAA","AAG"}
     [] aa = "V" -> {"GTT","GTC","GTA","GTG"}
     [] aa = "A" -> {"GCT","GCC","GCA","GCG"}
     [] aa = "D" -> {"GAT","GAC"}
     [] aa = "E" -> {"GAA","GAG"}
     [] aa = "G" -> {"GGT","GGC","GGA","GGG"}]
ASSUME StandardIsAPartition ==
    /\ UNION {StandardSets[a] : a \in DOMAIN StandardSets} = Codons
    /\ \A a, b \in DOMAIN StandardSets : a # b => StandardSets[a] \cap StandardSets[b] = {}
Standard == [c \in Codons |-> CHOOSE a \in DOMAIN StandardSets : c \in StandardSets[a]]

Ids == {1,2,3,4,5,6,9,10,11,12,13,14,16,21,22,23,24,25,26,27,28,29,30,31,33}

(* reassignments: a function from a subset of Codons to amino-acid letters *)
P(c, a) == <<c, a>>
Reassign(pairs) == [c \in Codons |-> IF \E p \in pairs : p[1] = c THEN (CHOOSE p \in pairs : p[1] = c)[2] ELSE Standard[c]]
Code == [id \in Ids |->
   CASE id = 1  -> Standard
     [] id = 2  -> Reassign({P("AGA","*"), P("AGG","*"), P("ATA","M"), P("TGA","W")})
     [] id = 3  -> Reassign({P("ATA","M"), P("CTT","T"), P("CTC","T"), P("CTA","T"), P("CTG","T"), P("TGA","W")})
     [] id = 4  -> Reassign({P("TGA","W")})
     [] id = 5  -> Reassign({P("AGA","S"), P("AGG","S"), P("ATA","M"), P("TGA","W")})
     [] id = 6  -> Reassign({P("TAA","Q"), P("TAG","Q")})
     [] id = 9  -> Reassign({P("AAA","N"), P("AGA","S"), P("AGG","S"), P("TGA","W")})
     [] id = 10 -> Reassign({P("TGA","C")})
     [] id = 11 -> Standard
     [] id = 12 -> Reassign({P("CTG","S")})
     [] id = 13 -> Reassign({P("AGA","G"), P("AGG","G"), P("ATA","M"), P("TGA","W")})
     [] id = 14 -> Reassign({P("AAA","N"), P("AGA","S"), P("AGG","S"), P("TAA","Y"), P("TGA","W")})
     [] id = 16 -> Reassign({P("TAG","L")})
     [] id = 21 -> Reassign({P("TGA","W"), P("ATA","M"), P("AGA","S"), P("AGG","S"), P("AAA","N")})
     [] id = 22 -> Reassign({P("TCA","*"), P("TAG","L")})
     [] id = 23 -> Reassign({P("TTA","*")})
     [] id = 24 -> Reassign({P("AGA","S"), P("AGG","K"), P("TGA","W")})
     [] id = 25 -> Reassign({P("TGA","G")})
     [] id = 26 -> Reassign({P("CTG","A")})
     [] id = 27 -> Reassign({P("TAA","Q"), P("TAG","Q"), P("TGA","W")})
     [] id = 28 -> Reassign({P("TAA","Q"), P("TAG","Q"), P("TGA","W")})
     [] id = 29 -> Reassign({P("TAA","Y"), P("TAG","Y")})
     [] id = 30 -> Reassign({P("TAA","E"), P("TAG","E")})
     [] id = 31 -> Reassign({P("TGA","W"), P("TAA","E"), P("TAG","E")})
     [] id = 33 -> Reassign({P("TAA","Y"), P("TGA","W"), P("AGA","S"), P("AGG","K")})]

Starts == [id \in Ids |->
   CASE id = 1  -> {"TTG","CTG","ATG"}
     [] id = 2  -> {"ATT","ATC","ATA","ATG","GTG"}
     [] id = 3  -> {"ATA","ATG","GTG"}
     [] id = 4  -> {"TTA","TTG","CTG","ATT","ATC","ATA","ATG","GTG"}
     [] id = 5  -> {"TTG","ATT","ATC","ATA","ATG","GTG"}
     [] id = 6  -> {"ATG"}
     [] id = 9  -> {"ATG","GTG"}
     [] id = 10 -> {"ATG"}
     [] id = 11 -> {"TTG","CTG","ATT","ATC","ATA","ATG","GTG"}
     [] id = 12 -> {"CTG","ATG"}
     [] id = 13 -> {"TTG","ATA","ATG","GTG"}
     [] id = 14 -> {"ATG"}
     [] id = 16 -> {"ATG"}
     [] id = 21 -> {"ATG","GTG"}
     [] id = 22 -> {"ATG"}
     [] id = 23 -> {"ATT","ATG","GTG"}
     [] id = 24 -> {"TTG","CTG","ATG","GTG"}
     [] id = 25 -> {"TTG","ATG","GTG"}
     [] id = 26 -> {"CTG","ATG"}
     [] id = 27 -> {"ATG"}
     [] id = 28 -> {"ATG"}
     [] id = 29 -> {"ATG"}
     [] id = 30 -> {"ATG"}
     [] id = 31 -> {"ATG"}
     [] id = 33 -> {"TTG","CTG","ATG","GTG"}]

Stops == [id \in Ids |->
   CASE id = 1  -> {"TAA","TAG","TGA"}
     [] id = 2  -> {"TAA","TAG","AGA","AGG"}
     [] id = 3  -> {"TAA","TAG"}
     [] id = 4  -> {"TAA","TAG"}
     [] id = 5  -> {"TAA","TAG"}
     [] id = 6  -> {"TGA"}
     [] id = 9  -> {"TAA","TAG"}
     [] id = 10 -> {"TAA","TAG"}
     [] id = 11 -> {"TAA","TAG","TGA"}
     [] id = 12 -> {"TAA","TAG","TGA"}
     [] id = 13 -> {"TAA","TAG"}
     [] id = 14 -> {"TAG"}
     [] id = 16 -> {"TAA","TGA"}
     [] id = 21 -> {"TAA","TAG"}
     [] id = 22 -> {"TCA","TAA","TGA"}
     [] id = 23 -> {"TTA","TAA","TAG","TGA"}
     [] id = 24 -> {"TAA","TAG"}
     [] id = 25 -> {"TAA","TAG"}
     [] id = 26 -> {"TAA","TAG","TGA"}
     [] id = 27 -> {"TGA"}
     [] id = 28 -> {"TAA","TAG","TGA"}
     [] id = 29 -> {"TGA"}
     [] id = 30 -> {"TGA"}
     [] id = 31 -> {"TAA","TAG"}
     [] id = 33 -> {"TAG"}]

(* sanity: except for the context-dependent codes, stop list = codons translated as '*' *)
ContextDependent == {27, 28, 31}
ASSUME StopsConsistent == \A id \in Ids \ ContextDependent : Stops[id] = {c \in Codons : Code[id][c] = "*"}
ASSUME ContextStops == \A id \in ContextDependent : {c \in Codons : Code[id][c] = "*"} = {}

(* ---- translation ---- *)
(* word = tuple of letters; one residue per complete in-frame codon, case-insensitive *)
CodonAtW(w, i) == UpC(w[3 * i - 2]) \o UpC(w[3 * i - 1]) \o UpC(w[3 * i])
TranslateW(w, id) == [i \in 1..(Len(w) \div 3) |-> Code[id][CodonAtW(w, i)]]
(* native strings, judged residue by residue *)
UpCodonAt(s, i) == UpC(SubSeq(s, 3 * i - 2, 3 * i - 2)) \o UpC(SubSeq(s, 3 * i - 1, 3 * i - 1)) \o UpC(SubSeq(s, 3 * i, 3 * i))
IsTranslationOf(p, s, id) == /\ Len(p) = Len(s) \div 3
                             /\ \A i \in 1..Len(p) : SubSeq(p, i, i) = Code[id][UpCodonAt(s, i)]
(* the amino-acid letters a code can encode, and the codons of one letter *)
LettersOf(id) == {Code[id][c] : c \in Codons}
(* NOTE for TLC: a zero-arity definition is evaluated once and cached only if it is built from plain   *)
(* TLA+ (no TLCEval, no RECURSIVE operator); everything above is, so Code / Starts / Stops are tables.  *)
CodonsOf(id, aa) == {c \in Codons : Code[id][c] = aa}
=============================================================================
