------------------------------- MODULE Str -------------------------------
(* String helpers. TLC strings support Len, SubSeq and \o but have no order *)
(* and no Head/Tail, so letters are handled as 1-character strings.         *)
EXTENDS Naturals, Sequences, TLC

Chars(s) == [i \in 1..Len(s) |-> SubSeq(s, i, i)]
CharAt(s, i) == SubSeq(s, i, i)

RECURSIVE JoinFrom(_, _)
JoinFrom(q, i) == IF i > Len(q) THEN "" ELSE q[i] \o JoinFrom(q, i + 1)
(* concatenation of a sequence of strings *)
Join(q) == JoinFrom(q, 1)

RECURSIVE JoinSepFrom(_, _, _)
JoinSepFrom(q, sep, i) == IF i > Len(q) THEN ""
                          ELSE IF i = Len(q) THEN q[i] ELSE q[i] \o sep \o JoinSepFrom(q, sep, i + 1)
JoinSep(q, sep) == JoinSepFrom(q, sep, 1)

Upper == "ABCDEFGHIJKLMNOPQRSTUVWXYZ"
Lower == "abcdefghijklmnopqrstuvwxyz"
UpperSet == {SubSeq(Upper, i, i) : i \in 1..26}
LowerSet == {SubSeq(Lower, i, i) : i \in 1..26}
ToUpperMap == [c \in LowerSet |-> LET i == CHOOSE j \in 1..26 : SubSeq(Lower, j, j) = c IN SubSeq(Upper, i, i)]
ToLowerMap == [c \in UpperSet |-> LET i == CHOOSE j \in 1..26 : SubSeq(Upper, j, j) = c IN SubSeq(Lower, i, i)]
UpC(c) == IF c \in LowerSet THEN ToUpperMap[c] ELSE c
LoC(c) == IF c \in UpperSet THEN ToLowerMap[c] ELSE c
IsLowerC(c) == c \in LowerSet
ToUpper(s) == Join([i \in 1..Len(s) |-> UpC(SubSeq(s, i, i))])

Rev(q) == [i \in 1..Len(q) |-> q[Len(q) + 1 - i]]
==========================================================================
