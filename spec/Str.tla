------------------------------- MODULE Str -------------------------------
(* String helpers. TLC strings support Len, SubSeq and \o but have no order *)
(* and no Head/Tail, so letters are handled as 1-character strings.         *)
EXTENDS Naturals, Sequences, FiniteSets, TLC

Chars(s) == [i \in 1..Len(s) |-> SubSeq(s, i, i)]
CharAt(s, i) == SubSeq(s, i, i)

RECURSIVE JoinFrom(_, _)
JoinFrom(q, i) == IF i > Len(q) THEN "" ELSE q[i] \o JoinFrom(q, i + 1)
(* concatenation of a sequence of strings *)
Join(q) == JoinFrom(q, 1)

RECURSIVE JoinSepFrom(_, _, _)
JoinSepFrom(q, sep, i) == IF i > Len(q) THEN ""
                          ELSE IF i = Len(q) THEN q[i] ELSE q[i] \o sep \o JoinSepFrom(q, sep, i + 1)
JoinSep(q, sep) == JoinSepFrom(q, sep, 1)

Upper == "ABCDEFGHIJKLMNOPQRSTUVWXYZ"
Lower == "abcdefghijklmnopqrstuvwxyz"
UpperSet == {SubSeq(Upper, i, i) : i \in 1..26}
LowerSet == {SubSeq(Lower, i, i) : i \in 1..26}
ToUpperMap == [c \in LowerSet |-> LET i == CHOOSE j \in 1..26 : SubSeq(Lower, j, j) = c IN SubSeq(Upper, i, i)]
ToLowerMap == [c \in UpperSet |-> LET i == CHOOSE j \in 1..26 : SubSeq(Upper, j, j) = c IN SubSeq(Lower, i, i)]
UpC(c) == IF c \in LowerSet THEN ToUpperMap[c] ELSE c
LoC(c) == IF c \in UpperSet THEN ToLowerMap[c] ELSE c
IsLowerC(c) == c \in LowerSet
ToUpper(s) == Join([i \in 1..Len(s) |-> UpC(SubSeq(s, i, i))])

(* split s at every occurrence of the 1-character separator sep (always at least one piece) *)
SplitStr(s, sep) ==
    LET P == {i \in 1..Len(s) : SubSeq(s, i, i) = sep}
        n == Cardinality(P)
        pos == [k \in 0..n + 1 |-> IF k = 0 THEN 0 ELSE IF k = n + 1 THEN Len(s) + 1
                                    ELSE CHOOSE i \in P : Cardinality({j \in P : j < i}) = k - 1] IN
    [k \in 1..n + 1 |-> SubSeq(s, pos[k - 1] + 1, pos[k] - 1)]
StartsWith(s, p) == Len(s) >= Len(p) /\ SubSeq(s, 1, Len(p)) = p
(* natural number -> decimal string is ToString; decimal string -> natural number *)
DigitOf == [c \in {"0","1","2","3","4","5","6","7","8","9"} |-> CASE c = "0" -> 0 [] c = "1" -> 1 [] c = "2" -> 2 [] c = "3" -> 3 [] c = "4" -> 4 [] c = "5" -> 5 [] c = "6" -> 6 [] c = "7" -> 7 [] c = "8" -> 8 [] c = "9" -> 9]
IsNat(s) == Len(s) >= 1 /\ \A i \in 1..Len(s) : SubSeq(s, i, i) \in DOMAIN DigitOf
ToNat(s) == LET f[i \in 0..Len(s)] == IF i = 0 THEN 0 ELSE 10 * f[i - 1] + DigitOf[SubSeq(s, i, i)] IN f[Len(s)]

Rev(q) == [i \in 1..Len(q) |-> q[Len(q) + 1 - i]]
==========================================================================
