---------------------------- MODULE GenbankFormat ----------------------------
(* The GenBank flat-file format (C01, C03, used by C15).                      *)
(*                                                                            *)
(* Abstract record (texts are SEQUENCES OF WORDS, so that wrapping is free):  *)
(*   [locus |-> [name, len, mol, topo, div, date],                            *)
(*    def, acc, ver, kw, src, org   : word sequences (keyword blocks),        *)
(*    refs  : sequence of [idx, range, authors, title, journal, pubmed,       *)
(*            remark]  (range .. remark word sequences, <<>> = absent),       *)
(*    others: sequence of <<KEYWORD, words>>  (COMMENT, DBLINK, ...),         *)
(*    feats : sequence of [key, loc, quals], loc = sequence of location       *)
(*            pieces that may be put on separate lines, quals = sequence of   *)
(*            [k, words, quoted, glue] (glue: pieces are joined without a     *)
(*            blank, as for /translation),                                    *)
(*    origin: the sequence letters]                                           *)
(* Write(R, st)   an independent writer; the style st fixes every layout      *)
(*                choice (wrap widths, location splitting, LOCUS spacing)     *)
(* Read(lines)    an independent reader of one record                         *)
(* Expected(R)    the values poly must hold after parsing                     *)
EXTENDS Str, Integers
Spaces(n) == Join([i \in 1..n |-> " "])
PadTo(s, n) == IF Len(s) >= n THEN s ELSE s \o Spaces(n - Len(s))
(* ---- word wrapping: greedy, lines of at most w columns after a prefix of `ind` columns ---- *)
RECURSIVE WrapWords(_, _, _, _)
WrapWords(ws, i, cur, w) ==      \* returns the sequence of lines (without prefix)
    IF i > Len(ws) THEN (IF cur = "" THEN <<>> ELSE <<cur>>)
    ELSE IF cur = "" THEN WrapWords(ws, i + 1, ws[i], w)
    ELSE IF Len(cur) + 1 + Len(ws[i]) <= w THEN WrapWords(ws, i + 1, cur \o " " \o ws[i], w)
    ELSE <<cur>> \o WrapWords(ws, i, "", w)
Block(key, keycols, ws, w) ==    \* keyword block: first line carries the keyword padded to keycols, others are indented
    LET ls == WrapWords(ws, 1, "", w) IN
    IF ls = <<>> THEN <<PadTo(key, keycols)>>
    ELSE [i \in 1..Len(ls) |-> (IF i = 1 THEN PadTo(key, keycols) ELSE Spaces(keycols)) \o ls[i]]
(* split a long glued token into chunks of at most w letters *)
Chunks(s, w) == [k \in 1..((Len(s) + w - 1) \div w) |-> SubSeq(s, (k - 1) * w + 1, IF k * w < Len(s) THEN k * w ELSE Len(s))]

LocusLine(lc, st) ==
    IF st.locus = "wide"
    THEN "LOCUS       " \o PadTo(lc.name, 16) \o " " \o Spaces(11 - Len(lc.len)) \o lc.len \o " bp    " \o PadTo(lc.mol, 6) \o "  " \o PadTo(lc.topo, 8) \o " " \o lc.div \o " " \o lc.date
    ELSE "LOCUS       " \o lc.name \o "  " \o lc.len \o " bp  " \o lc.mol \o "  " \o lc.topo \o "  " \o lc.div \o "  " \o lc.date
RefLines(r, st) ==
    Block("REFERENCE", 12, <<r.idx>> \o r.range, st.kw)
    \o (IF r.authors = <<>> THEN <<>> ELSE Block("  AUTHORS", 12, r.authors, st.kw))
    \o (IF r.title = <<>> THEN <<>> ELSE Block("  TITLE", 12, r.title, st.kw))
    \o (IF r.journal = <<>> THEN <<>> ELSE Block("  JOURNAL", 12, r.journal, st.kw))
    \o (IF r.pubmed = <<>> THEN <<>> ELSE Block("   PUBMED", 12, r.pubmed, st.kw))
    \o (IF r.remark = <<>> THEN <<>> ELSE Block("  REMARK", 12, r.remark, st.kw))
RECURSIVE Cat(_, _)
Cat(q, i) == IF i > Len(q) THEN <<>> ELSE q[i] \o Cat(q, i + 1)
QualLines(q, st) ==
    LET open == IF q.quoted THEN "\"" ELSE "" IN
    IF q.words = <<>> THEN <<Spaces(21) \o "/" \o q.k>>                                           \* a flag qualifier
    ELSE IF q.glue
    THEN LET whole == "/" \o q.k \o "=" \o open \o q.words[1] \o open
             cs == Chunks(whole, st.qw) IN [i \in 1..Len(cs) |-> Spaces(21) \o cs[i]]
    ELSE LET ws == [i \in 1..Len(q.words) |-> (IF i = 1 THEN "/" \o q.k \o "=" \o open ELSE "") \o q.words[i] \o (IF i = Len(q.words) THEN open ELSE "")]
             ls == WrapWords(ws, 1, "", st.qw) IN [i \in 1..Len(ls) |-> Spaces(21) \o ls[i]]
FeatLines(f, st) ==
    (IF st.locsplit
     THEN [i \in 1..Len(f.loc) |-> (IF i = 1 THEN Spaces(5) \o PadTo(f.key, 16) ELSE Spaces(21)) \o f.loc[i]]
     ELSE <<Spaces(5) \o PadTo(f.key, 16) \o Join(f.loc)>>)
    \o Cat([i \in 1..Len(f.quals) |-> QualLines(f.quals[i], st)], 1)
OriginLines(seq) ==
    [k \in 1..((Len(seq) + 59) \div 60) |->
        LET from == (k - 1) * 60 + 1
            chunk == SubSeq(seq, from, IF k * 60 < Len(seq) THEN k * 60 ELSE Len(seq))
            num == ToString(from) IN
        Spaces(9 - Len(num)) \o num \o Join([j \in 1..((Len(chunk) + 9) \div 10) |-> " " \o SubSeq(chunk, (j - 1) * 10 + 1, IF j * 10 < Len(chunk) THEN j * 10 ELSE Len(chunk))])]
Write(R, st) ==
    <<LocusLine(R.locus, st)>>
    \o Block("DEFINITION", 12, R.def, st.kw) \o Block("ACCESSION", 12, R.acc, st.kw) \o Block("VERSION", 12, R.ver, st.kw)
    \o Block("KEYWORDS", 12, R.kw, st.kw) \o Block("SOURCE", 12, R.src, st.kw) \o Block("  ORGANISM", 12, R.org, st.kw)
    \o Cat([i \in 1..Len(R.refs) |-> RefLines(R.refs[i], st)], 1)
    \o Cat([i \in 1..Len(R.others) |-> Block(R.others[i][1], 12, R.others[i][2], st.kw)], 1)
    \o <<"FEATURES             Location/Qualifiers">>
    \o Cat([i \in 1..Len(R.feats) |-> FeatLines(R.feats[i], st)], 1)
    \o <<"ORIGIN">> \o OriginLines(R.origin) \o <<"//">>

(* ---- what poly must hold after parsing ---- *)
Txt(ws) == JoinSep(ws, " ")
QualValue(q) == IF q.glue THEN (IF q.words = <<>> THEN "" ELSE q.words[1]) ELSE Txt(q.words)
Expected(R) ==
    [locus |-> R.locus, definition |-> Txt(R.def), accession |-> Txt(R.acc), version |-> Txt(R.ver), keywords |-> Txt(R.kw),
     source |-> Txt(R.src), organism |-> Txt(R.org),
     refs |-> [i \in 1..Len(R.refs) |-> [index |-> R.refs[i].idx, range |-> Txt(R.refs[i].range), authors |-> Txt(R.refs[i].authors),
                                        title |-> Txt(R.refs[i].title), journal |-> Txt(R.refs[i].journal),
                                        pubmed |-> Txt(R.refs[i].pubmed), remark |-> Txt(R.refs[i].remark)]],
     others |-> [i \in 1..Len(R.others) |-> <<R.others[i][1], Txt(R.others[i][2])>>],
     feats |-> [i \in 1..Len(R.feats) |-> [key |-> R.feats[i].key, loc |-> Join(R.feats[i].loc),
                                          quals |-> [j \in 1..Len(R.feats[i].quals) |-> <<R.feats[i].quals[j].k, QualValue(R.feats[i].quals[j])>>]]],
     origin |-> R.origin]

(* ---- an independent reader of one record: lines -> the Expected form ---- *)
TrimL(s) == LET k == CHOOSE j \in 1..Len(s) + 1 : (j = Len(s) + 1 \/ SubSeq(s, j, j) # " ") /\ \A i \in 1..j - 1 : SubSeq(s, i, i) = " " IN SubSeq(s, k, Len(s))
TrimR(s) == LET k == CHOOSE j \in 0..Len(s) : (j = 0 \/ SubSeq(s, j, j) # " ") /\ \A i \in j + 1..Len(s) : SubSeq(s, i, i) = " " IN SubSeq(s, 1, k)
Trim(s) == TrimL(TrimR(s))
WordsOf(s) == SelectSeq(SplitStr(s, " "), LAMBDA x : x # "")
IsTop(line) == line # "" /\ SubSeq(line, 1, 1) # " "
IsSub(line) == Len(line) >= 12 /\ SubSeq(line, 1, 1) = " " /\ Trim(SubSeq(line, 1, 12)) # ""     \* sub-keyword in columns 1..12
FirstWord(line) == WordsOf(line)[1]
Idx(lines, P(_)) == SelectSeq([i \in 1..Len(lines) |-> i], LAMBDA i : P(lines[i]))
(* text of the (sub)keyword block that starts at line i: rest of that line plus continuation lines *)
RECURSIVE ContEnd(_, _)
ContEnd(lines, j) == IF j > Len(lines) \/ IsTop(lines[j]) \/ IsSub(lines[j]) THEN j - 1 ELSE ContEnd(lines, j + 1)
BlockText(lines, i) ==
    LET first == Trim(SubSeq(lines[i], 13, Len(lines[i])))
        e == ContEnd(lines, i + 1)
        rest == [k \in 1..e - i |-> Trim(lines[i + k])] IN
    JoinSep(SelectSeq(<<first>> \o rest, LAMBDA x : x # ""), " ")
TopIdx(lines, key) == SelectSeq([i \in 1..Len(lines) |-> i], LAMBDA i : IsTop(lines[i]) /\ FirstWord(lines[i]) = key)
TopText(lines, key) == LET t == TopIdx(lines, key) IN IF t = <<>> THEN "" ELSE BlockText(lines, t[1])
NextTop(lines, i) == IF \E j \in i + 1..Len(lines) : IsTop(lines[j])
                     THEN CHOOSE j \in i + 1..Len(lines) : IsTop(lines[j]) /\ \A m \in i + 1..j - 1 : ~IsTop(lines[m]) ELSE Len(lines) + 1
SubText(lines, from, to, key) ==     \* sub-keyword `key` between lines from..to
    LET c == {j \in from..to : IsSub(lines[j]) /\ FirstWord(lines[j]) = key} IN
    IF c = {} THEN "" ELSE BlockText(lines, CHOOSE j \in c : \A m \in c : j <= m)
ReadRef(lines, i) ==
    LET ws == WordsOf(SubSeq(lines[i], 13, Len(lines[i])))
        e == ContEnd(lines, i + 1)
        all == WordsOf(BlockText(lines, i))
        to == NextTop(lines, i) - 1 IN
    [index |-> all[1], range |-> JoinSep(SubSeq(all, 2, Len(all)), " "),
     authors |-> SubText(lines, i + 1, to, "AUTHORS"), title |-> SubText(lines, i + 1, to, "TITLE"),
     journal |-> SubText(lines, i + 1, to, "JOURNAL"), pubmed |-> SubText(lines, i + 1, to, "PUBMED"), remark |-> SubText(lines, i + 1, to, "REMARK")]
Standard == {"LOCUS", "DEFINITION", "ACCESSION", "VERSION", "KEYWORDS", "SOURCE", "REFERENCE", "FEATURES", "ORIGIN", "//"}
ReadLocus(line) == LET w == WordsOf(line) IN      \* LOCUS name len bp mol topo div date
    [name |-> w[2], len |-> w[3], mol |-> w[5], topo |-> w[6], div |-> w[7], date |-> w[8]]
(* feature table *)
IsFeatStart(line) == Len(line) > 5 /\ SubSeq(line, 1, 5) = "     " /\ SubSeq(line, 6, 6) # " "
IsQualStart(line) == Len(line) > 21 /\ Trim(SubSeq(line, 1, 21)) = "" /\ SubSeq(line, 22, 22) = "/"
Unquote(s) == IF Len(s) >= 2 /\ SubSeq(s, 1, 1) = "\"" /\ SubSeq(s, Len(s), Len(s)) = "\"" THEN SubSeq(s, 2, Len(s) - 1) ELSE s
ReadQual(lines, i, to) ==       \* qualifier starting at line i; its continuation lines run up to the next qualifier / feature
    LET e == CHOOSE j \in i..to : (j = to \/ IsQualStart(lines[j + 1]) \/ IsFeatStart(lines[j + 1])) /\ \A m \in i + 1..j : ~IsQualStart(lines[m]) /\ ~IsFeatStart(lines[m])
        head == Trim(lines[i])
        eq == {p \in 1..Len(head) : SubSeq(head, p, p) = "="}
        key == IF eq = {} THEN SubSeq(head, 2, Len(head)) ELSE SubSeq(head, 2, (CHOOSE p \in eq : \A m \in eq : p <= m) - 1)
        v1 == IF eq = {} THEN "" ELSE SubSeq(head, (CHOOSE p \in eq : \A m \in eq : p <= m) + 1, Len(head))
        pieces == <<v1>> \o [k \in 1..e - i |-> Trim(lines[i + k])]
        glue == key = "translation" IN
    <<key, Unquote(IF glue THEN Join(pieces) ELSE JoinSep(pieces, " "))>>
ReadFeat(lines, i, to) ==       \* feature starting at line i, its lines run to `to`
    LET qs == SelectSeq([k \in 1..to - i |-> i + k], LAMBDA j : IsQualStart(lines[j]))
        locEnd == IF qs = <<>> THEN to ELSE qs[1] - 1 IN
    [key |-> FirstWord(lines[i]),
     loc |-> Join(<<Trim(SubSeq(lines[i], 22, Len(lines[i])))>> \o [k \in 1..locEnd - i |-> Trim(lines[i + k])]),
     quals |-> [k \in 1..Len(qs) |-> ReadQual(lines, qs[k], to)]]
ReadFeats(lines) ==
    LET f == TopIdx(lines, "FEATURES")[1]
        to == NextTop(lines, f) - 1
        st == SelectSeq([k \in 1..to - f |-> f + k], LAMBDA j : IsFeatStart(lines[j])) IN
    [k \in 1..Len(st) |-> ReadFeat(lines, st[k], IF k < Len(st) THEN st[k + 1] - 1 ELSE to)]
Letters26 == {SubSeq("abcdefghijklmnopqrstuvwxyzABCDEFGHIJKLMNOPQRSTUVWXYZ", i, i) : i \in 1..52}
OnlyLetters(s) == Join(SelectSeq([i \in 1..Len(s) |-> SubSeq(s, i, i)], LAMBDA c : c \in Letters26))
ReadOrigin(lines) ==
    LET o == TopIdx(lines, "ORIGIN")[1]
        e == TopIdx(lines, "//")[1] IN
    Join([k \in 1..e - o - 1 |-> OnlyLetters(lines[o + k])])
Read(lines) ==
    LET tops == SelectSeq([i \in 1..Len(lines) |-> i], LAMBDA i : IsTop(lines[i]))
        others == SelectSeq(tops, LAMBDA i : FirstWord(lines[i]) \notin Standard)
        s == TopIdx(lines, "SOURCE")
        refs == TopIdx(lines, "REFERENCE") IN
    [locus |-> ReadLocus(lines[TopIdx(lines, "LOCUS")[1]]),
     definition |-> TopText(lines, "DEFINITION"), accession |-> TopText(lines, "ACCESSION"), version |-> TopText(lines, "VERSION"),
     keywords |-> TopText(lines, "KEYWORDS"), source |-> TopText(lines, "SOURCE"),
     organism |-> IF s = <<>> THEN "" ELSE SubText(lines, s[1] + 1, NextTop(lines, s[1]) - 1, "ORGANISM"),
     refs |-> [k \in 1..Len(refs) |-> ReadRef(lines, refs[k])],
     others |-> [k \in 1..Len(others) |-> <<FirstWord(lines[others[k]]), BlockText(lines, others[k])>>],
     feats |-> ReadFeats(lines),
     origin |-> ReadOrigin(lines)]
=============================================================================
