CONSTANTS Orders = {2}
Lens = {2, 3, 4, 6, 8}
MaxBans = 2
BanLen = 2
Fixpoint = TRUE
SPECIFICATION Spec
INVARIANTS PropertyHolds NoSharedWord EmitInput
CHECK_DEADLOCK FALSE
