CONSTANTS Mode = "hom"
N = 7
HomIds = {1, 2, 22}
SPECIFICATION Spec
INVARIANTS Emit Hom
CHECK_DEADLOCK FALSE
