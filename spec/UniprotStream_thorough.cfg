CONSTANTS MaxK = 3
MaxCap = 3
Mode = "closefirst"
SPECIFICATION Spec
INVARIANTS InOrder Outcome NoSendOnClosed EmitScenario
PROPERTY Termination
CHECK_DEADLOCK FALSE
