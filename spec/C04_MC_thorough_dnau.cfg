CONSTANTS Mode = "dnau"
N = 6
TheoremN = 0
SPECIFICATION Spec
INVARIANTS Emit
CHECK_DEADLOCK FALSE
