CONSTANTS EnzymeName = "e2"
N = 8
TheoremN = 6
SPECIFICATION Spec
INVARIANTS Emit RotationInvariant LinearInside
CHECK_DEADLOCK FALSE
