CONSTANTS M = 8
MaxJ = 3
MaxAlt = 2
SPECIFICATION Spec
INVARIANTS Check
CHECK_DEADLOCK FALSE
