CONSTANTS M = 2
K = 4
UsedCheck = TRUE
ChanCap = 0
PoolSet = "structured"
SPECIFICATION SpecS
INVARIANTS WgNeverNegative NoSendOnClosed CloseAfterAllDone WgCountsLive ResultIsRings EmitS
CHECK_DEADLOCK FALSE
