CONSTANTS Ids18 = {1, 2, 4, 11, 22, 33}
Tier = "thorough"
SPECIFICATION Spec
INVARIANTS Check
CHECK_DEADLOCK FALSE
