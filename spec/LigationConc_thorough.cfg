CONSTANTS M = 3
K = 3
UsedCheck = TRUE
PoolSet = "five"
SPECIFICATION Spec
INVARIANTS WgNeverNegative NoSendOnClosed CloseAfterAllDone WgCountsLive ResultIsRings
PROPERTY Termination
CHECK_DEADLOCK FALSE
