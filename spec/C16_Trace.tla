----------------------------- MODULE C16_Trace -----------------------------
(* I->S for C16: recorded runs of rebase.Parse / rebase.Read / rebase.Export*)
(* on listings written by the harness's own writer (0..300 records, empty   *)
(* fields, 0..15 supplier letters, arbitrary header prose, supplier lines   *)
(* indented with spaces or tabs).                                           *)
(*  [lines, parsed, exported]   lines: the listing; parsed: the returned    *)
(*  map as a list of records sorted by name; exported: the JSON text of     *)
(*  rebase.Export re-read by the harness with the published key names, in   *)
(*  the same form.  The specification's reader (RebaseFormat!Read) turns    *)
(*  the lines into the abstract listing; parsed and exported must equal its *)
(*  Expected map.                                                           *)
EXTENDS RebaseFormat, Sequences, Json, CSV, IOUtils
Trace == ndJsonDeserialize(IOEnv.TRACEFILE)
VARIABLES l
Norm(r) == [name |-> r.name, isoschizomers |-> IF r.isoschizomers = <<"">> THEN <<>> ELSE r.isoschizomers,
            recognitionSequence |-> r.recognitionSequence, methylationSite |-> r.methylationSite, microorganism |-> r.microorganism,
            source |-> r.source, commercialAvailability |-> r.commercialAvailability, references |-> r.references]
AsMap(q) == [n \in {q[i].name : i \in 1..Len(q)} |-> Norm(q[CHOOSE i \in 1..Len(q) : q[i].name = n])]
Judge(e) ==
    LET L == Read(e.lines)
        want == LET m == Expected(L) IN [n \in DOMAIN m |-> Norm(m[n])] IN
    IF e.panic # "" THEN "rebase.Parse panicked: " \o e.panic
    ELSE IF AsMap(e.parsed) # want THEN
         (IF DOMAIN AsMap(e.parsed) # DOMAIN want THEN "the returned map does not have exactly one entry per <1>..<8> record"
          ELSE IF \E n \in DOMAIN want : [AsMap(e.parsed)[n] EXCEPT !.commercialAvailability = <<>>] # [want[n] EXCEPT !.commercialAvailability = <<>>]
               THEN "a record field differs from what is written in the listing"
          ELSE "commercial-source letters are not decoded to the suppliers of the listing's own table")
    ELSE IF AsMap(e.exported) # want THEN "the JSON export does not parse back to the same map"
    ELSE "ok"
Init == l = 1
Next == /\ l <= Len(Trace)
        /\ LET r == Judge(Trace[l]) IN
             CSVWrite("%1$s", <<ToJson([l |-> l, v |-> IF r = "ok" THEN "ok" ELSE "bad", why |-> r])>>, IOEnv.VERDICTFILE)
        /\ l' = l + 1
Spec == Init /\ [][Next]_l
Accepted == TLCGet("stats").diameter - 1 = Len(Trace)
============================================================================
