---------------------------- MODULE FastaStream ----------------------------
(* FASTA files and the streaming FASTA parser (C13).                        *)
(*                                                                          *)
(* A file is a sequence of lines.  Line classes: header (">name"), comment  *)
(* (";..."), blank (""), sequence (anything else).  Records(lines) is what  *)
(* the file states: one record per header line, named by the header without *)
(* '>', whose sequence is the concatenation of the sequence lines up to the *)
(* next header; blank and comment lines mean nothing.  The domain is files  *)
(* whose first sequence line comes after a header (as every FASTA writer    *)
(* produces).                                                               *)
(*                                                                          *)
(* The streaming layer is a producer (the line scanner of ParseConcurrent:  *)
(* it sends a record when it meets the NEXT header and once more at end of  *)
(* file, then closes the channel) and a consumer with nondeterministic      *)
(* stalls, connected by a channel of capacity Cap (0 = rendezvous).         *)
EXTENDS Str, FiniteSets
Class(line) == IF line = "" THEN "blank"
               ELSE IF SubSeq(line, 1, 1) = ";" THEN "comment"
               ELSE IF SubSeq(line, 1, 1) = ">" THEN "header" ELSE "seq"
HeaderIdx(lines) == {i \in 1..Len(lines) : Class(lines[i]) = "header"}
InDomain(lines) == /\ HeaderIdx(lines) # {}
                   /\ \A i \in 1..Len(lines) : Class(lines[i]) = "seq" => \E h \in HeaderIdx(lines) : h < i
(* the record that starts at header line h *)
RecordAt(lines, h) ==
    LET nxt == IF \E j \in HeaderIdx(lines) : j > h THEN CHOOSE j \in HeaderIdx(lines) : j > h /\ \A k \in HeaderIdx(lines) : k > h => j <= k
               ELSE Len(lines) + 1
        body == SelectSeq(SubSeq(lines, h + 1, nxt - 1), LAMBDA x : Class(x) = "seq") IN
    [name |-> SubSeq(lines[h], 2, Len(lines[h])), seq |-> Join(body)]
SortedHeaders(lines) == LET H == HeaderIdx(lines) IN
    [k \in 1..Cardinality(H) |-> CHOOSE h \in H : Cardinality({g \in H : g < h}) = k - 1]
Records(lines) == [k \in 1..Cardinality(HeaderIdx(lines)) |-> RecordAt(lines, SortedHeaders(lines)[k])]
============================================================================
