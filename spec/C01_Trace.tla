----------------------------- MODULE C01_Trace -----------------------------
(* I->S for C01: files laid out by the harness's own GenBank writer from    *)
(* random abstract records (sequences to 10^5 bases, 0..40 features, 0..5   *)
(* references, 1..5 records per file).                                      *)
(*  [lines, want, records, diff]                                            *)
(*     lines: the first record of the file as written; want: the abstract   *)
(*     record the writer was given (Expected form, qualifiers and extra     *)
(*     keyword blocks sorted by key); diff: "" if every entry point         *)
(*     (Parse, Read, ParseMulti, ParseFlat, with / without final newline)   *)
(*     returned exactly `want` for every record of the file, else the first *)
(*     difference.                                                          *)
(*  TLC (i) reads the lines with the specification's reader and requires    *)
(*  the result to equal `want` - the harness's writer stayed inside the     *)
(*  specified format, so a difference reported by diff is poly's - and      *)
(*  (ii) requires diff = "".                                                *)
EXTENDS GenbankFormat, Sequences, SequencesExt, Json, CSV, IOUtils
Trace == ndJsonDeserialize(IOEnv.TRACEFILE)
VARIABLES l
PairSet(q) == {<<q[i][1], q[i][2]>> : i \in 1..Len(q)}
Canon(r) == [locus |-> r.locus, definition |-> r.definition, accession |-> r.accession, version |-> r.version, keywords |-> r.keywords,
             source |-> r.source, organism |-> r.organism,
             refs |-> [i \in 1..Len(r.refs) |-> [index |-> r.refs[i].index, range |-> r.refs[i].range, authors |-> r.refs[i].authors, title |-> r.refs[i].title,
                                                journal |-> r.refs[i].journal, pubmed |-> r.refs[i].pubmed, remark |-> r.refs[i].remark]],
             others |-> PairSet(r.others),
             feats |-> [i \in 1..Len(r.feats) |-> [key |-> r.feats[i].key, loc |-> r.feats[i].loc, quals |-> PairSet(r.feats[i].quals)]],
             origin |-> r.origin]
Judge(e) ==
    IF Len(e.lines) <= 700 /\ Canon(Read(e.lines)) # Canon(e.want) THEN "harness: the generated file does not read back to the abstract record under the specification's reader"
    ELSE IF e.diff # "" THEN e.diff
    ELSE "ok"
Init == l = 1
Next == /\ l <= Len(Trace)
        /\ LET r == Judge(Trace[l]) IN
             CSVWrite("%1$s", <<ToJson([l |-> l, v |-> IF r = "ok" THEN "ok" ELSE "bad", why |-> r])>>, IOEnv.VERDICTFILE)
        /\ l' = l + 1
Spec == Init /\ [][Next]_l
Accepted == TLCGet("stats").diameter - 1 = Len(Trace)
============================================================================
