CONSTANTS Mode = "dna"
N = 7
TheoremN = 5
SPECIFICATION Spec
INVARIANTS Emit CanonInOrbit CanonConstant CaseBlind RnaDna
CHECK_DEADLOCK FALSE
