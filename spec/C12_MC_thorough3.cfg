CONSTANTS K = 3
N = 13
TheoremN = 6
SPECIFICATION Spec
INVARIANTS Emit FastAgrees IsRotation Minimal OneCanonical
CHECK_DEADLOCK FALSE
