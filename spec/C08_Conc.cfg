CONSTANTS Procs = {1, 2, 11}
Groups = 4
Shared = FALSE
SPECIFICATION Spec
INVARIANTS RaceFree Outcome
CHECK_DEADLOCK FALSE
