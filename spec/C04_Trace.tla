----------------------------- MODULE C04_Trace -----------------------------
(* I->S for C04 / C05: recorded calls of seqhash.Hash judged by Seqhash.tla.*)
(* The digest is opaque to TLC, so events relate TWO calls:                 *)
(*  [k|->"meta", rel, a, b, off, type, typeb, circ, ds, ha, hb]             *)
(*      the harness derived b from a by `rel` (rot / rc / rotrc / case /    *)
(*      rna); the relation is re-verified here with native string           *)
(*      operations (a, b up to 10^5 letters) and the two identifiers must   *)
(*      be equal (rna: equal except the type letter)             -- C04     *)
(*  [k|->"sep", a, b, type, circ, ds, ha, hb]   (<= 200 letters)            *)
(*      ha = hb  <=>  Canon(a) = Canon(b)                        -- C05     *)
(*  [k|->"rej", a, type, circ, ds, err]   err <=> ~Accepts       -- C05     *)
(* Every identifier must have the published form v1_<tag>_<64 hex digits>.  *)
EXTENDS Seqhash, Json, CSV, IOUtils
Trace == ndJsonDeserialize(IOEnv.TRACEFILE)
VARIABLES l
HexDigits == {"0","1","2","3","4","5","6","7","8","9","a","b","c","d","e","f"}
WellFormed(h, type, circ, ds) ==
    /\ Len(h) = 71
    /\ SubSeq(h, 1, 3) = "v1_" /\ SubSeq(h, 4, 6) = Tag(type, circ, ds) /\ SubSeq(h, 7, 7) = "_"
    /\ \A i \in 8..71 : SubSeq(h, i, i) \in HexDigits
RotAt(a, k) == SubSeq(a \o a, k + 1, k + Len(a))
Related(e) ==
    CASE e.rel = "rot"   -> e.circ /\ e.off \in 0..Len(e.a) /\ Len(e.b) = Len(e.a) /\ RotAt(e.a, e.off) = e.b
      [] e.rel = "rc"    -> e.ds /\ IsRCOf(e.b, e.a)
      [] e.rel = "rotrc" -> e.circ /\ e.ds /\ e.off \in 0..Len(e.a) /\ IsRCOf(e.b, RotAt(e.a, e.off))
      [] e.rel = "case"  -> Len(e.b) = Len(e.a) /\ \A i \in 1..Len(e.a) : UpC(SubSeq(e.a, i, i)) = UpC(SubSeq(e.b, i, i))
      [] e.rel = "rna"   -> /\ e.type = "RNA" /\ e.typeb = "DNA" /\ Len(e.b) = Len(e.a)
                            /\ \A i \in 1..Len(e.a) : LET c == SubSeq(e.a, i, i) IN
                                 SubSeq(e.b, i, i) = (IF c = "U" THEN "T" ELSE IF c = "u" THEN "t" ELSE c)
JudgeMeta(e) ==
    IF ~Related(e) THEN "harness: claimed relation between a and b does not hold"
    ELSE IF ~(WellFormed(e.ha, e.type, e.circ, e.ds) /\ WellFormed(e.hb, e.typeb, e.circ, e.ds)) THEN "identifier not of the form v1_<tag>_<64 hex>"
    ELSE IF e.rel = "rna" /\ SubSeq(e.ha, 5, 71) # SubSeq(e.hb, 5, 71) THEN "RNA and DNA spelling differ in more than the type letter"
    ELSE IF e.rel # "rna" /\ e.ha # e.hb THEN "two spellings of one molecule (" \o e.rel \o ") hash differently"
    ELSE "ok"
JudgeSep(e) ==
    LET wa == Chars(e.a) wb == Chars(e.b)
        same == Canon(wa, e.type, e.circ, e.ds) = Canon(wb, e.type, e.circ, e.ds) IN
    IF ~(WellFormed(e.ha, e.type, e.circ, e.ds) /\ WellFormed(e.hb, e.type, e.circ, e.ds)) THEN "identifier not of the form v1_<tag>_<64 hex>"
    ELSE IF same /\ e.ha # e.hb THEN "same molecule, different seqhash"
    ELSE IF ~same /\ e.ha = e.hb THEN "different molecules, same seqhash"
    ELSE "ok"
(* [k|->"form", a, type, circ, ds, canon, other, idx, strand, oidx, h, digestok]  (up to several thousand letters)  *)
(* canon: the canonical representative computed by the HARNESS by brute force; it is verified here without     *)
(* trusting it: it must be the rotation at idx of the strand `strand` ("fwd" / "rc") of the normalised input,   *)
(* least among its own rotations, and not greater than `other`, the verified least rotation of the other        *)
(* strand.  digestok: the identifier equals v1_tag_BLAKE3(canon) (digest computed by the harness).             *)
Ord27(c) == OrdOf[c]
StrLeq(x, y) == LET n == Len(x) d == Lcp(x \o y, 0, n, 0, n) IN d = n \/ Ord27(SubSeq(x, d + 1, d + 1)) < Ord27(SubSeq(y, d + 1, d + 1))
NormStr(s, type) == Join(Normalize(Chars(s), type))
JudgeForm(e) ==
    LET a == NormStr(e.a, e.type)
        fwdRot(x, k) == SubSeq(x \o x, k + 1, k + Len(x))
        strandOf(which) == IF which = "fwd" THEN a ELSE RC(a)
        otherName == IF e.strand = "fwd" THEN "rc" ELSE "fwd" IN
    IF ~(e.circ /\ Len(e.canon) = Len(a)) THEN "harness: form events are for circular molecules"
    ELSE IF fwdRot(strandOf(e.strand), e.idx) # e.canon \/ ~IsLeastRotStr(Ord27, e.canon, e.canon, 0) THEN "harness: canon is not the least rotation of the stated strand"
    ELSE IF e.ds /\ (fwdRot(strandOf(otherName), e.oidx) # e.other \/ ~IsLeastRotStr(Ord27, e.other, e.other, 0) \/ ~StrLeq(e.canon, e.other))
         THEN "harness: canon is not the lesser of the two strands' least rotations"
    ELSE IF ~WellFormed(e.h, e.type, e.circ, e.ds) THEN "identifier not of the form v1_<tag>_<64 hex>"
    ELSE IF ~e.digestok THEN "the identifier is not the BLAKE3 digest of the canonical representative (least rotation / lesser strand)"
    ELSE "ok"
JudgeRej(e) == IF e.err = Accepts(Chars(e.a), e.type, e.circ, e.ds) THEN "acceptance differs from the specification" ELSE "ok"
Judge(e) == CASE e.k = "meta" -> JudgeMeta(e) [] e.k = "sep" -> JudgeSep(e) [] e.k = "rej" -> JudgeRej(e) [] e.k = "form" -> JudgeForm(e)

Init == l = 1
Next == /\ l <= Len(Trace)
        /\ LET r == Judge(Trace[l]) IN
             CSVWrite("%1$s", <<ToJson([l |-> l, v |-> IF r = "ok" THEN "ok" ELSE "bad", why |-> r])>>, IOEnv.VERDICTFILE)
        /\ l' = l + 1
Spec == Init /\ [][Next]_l
Accepted == TLCGet("stats").diameter - 1 = Len(Trace)
============================================================================
