---------------------------- MODULE C07_Session ----------------------------
(* C07 over HISTORIES: one live codon table is re-weighted in place - by     *)
(* Table.OptimizeTable, which writes the weights into the table's own        *)
(* backing arrays ("call"), or by assigning the exported Weight fields       *)
(* directly ("fields") - and used by codon.Optimize in between.  The specification's       *)
(* state is the table's CURRENT weights; the set of codons Optimize may emit *)
(* and the residues it must reject are functions of that state alone -       *)
(* whatever was optimised with the table before.  TLC enumerates every       *)
(* history of up to MaxLen re-weightings (each either followed by an         *)
(* Optimize call or not) and emits, per history, the earlier steps and the   *)
(* eligible sets of the final state; the replayer drives ONE real table      *)
(* object through the history and checks the final state's clauses.          *)
EXTENDS CodonTables, Sequences, SequencesExt, Json, CSV, IOUtils
CONSTANTS IdsS, MaxLen
PatsS == {"ones", "p1_9", "p9_1", "zero1", "p10_30_60", "deadF"}
CodonSeq == [k \in 1..64 |-> B4[((k - 1) \div 16) + 1] \o B4[(((k - 1) \div 4) % 4) + 1] \o B4[((k - 1) % 4) + 1]]
Idx == [c \in Codons |-> CHOOSE k \in 1..64 : CodonSeq[k] = c]
Rank(id, c) == Cardinality({d \in CodonsOf(id, Code[id][c]) : Idx[d] < Idx[c]})
PatW(p, id, c) ==
    LET r == Rank(id, c) IN
    CASE p = "ones"      -> 1
      [] p = "p1_9"      -> IF r = 0 THEN 1 ELSE 9
      [] p = "p9_1"      -> IF r = 0 THEN 9 ELSE 1
      [] p = "zero1"     -> IF r = 0 THEN 0 ELSE 5
      [] p = "p10_30_60" -> IF r = 0 THEN 10 ELSE IF r = 1 THEN 30 ELSE 60
      [] p = "deadF"     -> IF Code[id][c] \in {"F", "W"} THEN 0 ELSE 3
WOf == [i \in IdsS |-> [p \in PatsS |-> [c \in Codons |-> PatW(p, i, c)]]]

VARIABLES id, w, how, used, hist
vars == <<id, w, how, used, hist>>
Hows == {"call", "fields"}
(* hist: the steps before the current one, each [w, used]; used: Optimize has been called since the last re-weighting *)
Init == id = 0 /\ w = Zeros /\ how = "call" /\ used = FALSE /\ hist = <<>>
Open == id = 0 /\ id' \in IdsS /\ how' \in Hows /\ \E p \in PatsS : w' = WOf[id'][p] /\ used' = FALSE /\ hist' = <<>>
Reweight(p) == /\ id # 0 /\ Len(hist) + 1 < MaxLen
               /\ w' = WOf[id][p] /\ used' = FALSE /\ how' \in Hows
               /\ hist' = Append(hist, [w |-> w, how |-> how, used |-> used])
               /\ UNCHANGED id
(* Optimize observes the table; it must not change it *)
Use == id # 0 /\ ~used /\ used' = TRUE /\ UNCHANGED <<id, w, how, hist>>
Next == Open \/ Use \/ \E p \in PatsS : Reweight(p)
Spec == Init /\ [][Next]_vars

Elig(aa) == Eligible(id, w, aa)
Check == (id # 0 /\ ~used) =>
    /\ CSVWrite("%1$s", <<ToJson([id |-> id, hist |-> [k \in 1..Len(hist) |-> [w |-> Sparse(hist[k].w), how |-> hist[k].how, used |-> hist[k].used]], how |-> how,
                                   w |-> Sparse(w), elig |-> [aa \in LettersOf(id) |-> SetToSeq(Elig(aa))]])>>, IOEnv.OUTFILE)
    /\ \A aa \in LettersOf(id) : \A c \in Elig(aa) : Code[id][c] = aa /\ w[c] > 0
    /\ \A aa \in LettersOf(id) : (Elig(aa) = {}) <=> (Total(id, w, aa) = 0)
(* what Optimize may emit is a function of the current weights only: two histories that end in the same weights have the same eligible sets *)
UseIsPure == [][used' /\ ~used => UNCHANGED <<id, w, how, hist>>]_vars
===========================================================================
