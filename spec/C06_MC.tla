------------------------------ MODULE C06_MC ------------------------------
(* C06.  Mode "cells": one state per (table id, codon) and per (id, lists): *)
(* the complete 25 x 64 assignment plus start/stop lists, emitted as S->I   *)
(* cases.  Mode "hom": one state per A/C/G/T word (mixed case) to length N  *)
(* for the tables in HomIds: homomorphism at codon boundaries, trailing     *)
(* partial codon ignored, case irrelevant - as theorems on the definition   *)
(* and as emitted cases.                                                    *)
EXTENDS GeneticCode, SequencesExt, Json, CSV, IOUtils
CONSTANTS Mode, N, HomIds
VARIABLES id, x
vars == <<id, x>>
Letters4 == {"A", "C", "G", "T", "a", "g"}
Init == IF Mode = "cells" THEN id \in Ids /\ x \in Codons \cup {"lists"} ELSE id \in HomIds /\ x = <<>>
Next == Mode = "hom" /\ Len(x) < N /\ \E c \in Letters4 : x' = Append(x, c) /\ UNCHANGED id
Spec == Init /\ [][Next]_vars

Emit == CSVWrite("%1$s", <<ToJson(
          IF Mode = "cells" THEN
             IF x = "lists" THEN [k |-> "lists", id |-> id, starts |-> SetToSeq(Starts[id]), stops |-> SetToSeq(Stops[id])]
             ELSE [k |-> "cell", id |-> id, codon |-> x, aa |-> Code[id][x]]
          ELSE [k |-> "tr", id |-> id, s |-> Join(x), p |-> Join(TranslateW(x, id))])>>, IOEnv.OUTFILE)

Hom == Mode = "hom" =>
         /\ \A k \in 0..(Len(x) \div 3) :
               TranslateW(x, id) = TranslateW(SubSeq(x, 1, 3 * k), id) \o TranslateW(SubSeq(x, 3 * k + 1, Len(x)), id)
         /\ TranslateW(x, id) = TranslateW(SubSeq(x, 1, 3 * (Len(x) \div 3)), id)
         /\ TranslateW([i \in 1..Len(x) |-> UpC(x[i])], id) = TranslateW(x, id)
         /\ Len(TranslateW(x, id)) = Len(x) \div 3
===========================================================================
