CONSTANTS EnzymeName = "e1"
N = 7
TheoremN = 6
SPECIFICATION Spec
INVARIANTS Emit RotationInvariant LinearInside
CHECK_DEADLOCK FALSE
