CONSTANTS Mode = "dna"
N = 9
TheoremN = 7
SPECIFICATION Spec
INVARIANTS Emit CanonInOrbit CanonConstant CaseBlind RnaDna
CHECK_DEADLOCK FALSE
