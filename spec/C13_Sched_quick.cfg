CONSTANTS MaxLines = 4
Caps = {0, 1, 2}
SPECIFICATION SpecS
INVARIANTS Delivered Prefix ClosedOnce NoSendAfterClose EmitS
PROPERTY Termination
CHECK_DEADLOCK FALSE
