------------------------------ MODULE C16_MC ------------------------------
(* C16: small REBASE listings laid out by the specification's writer: 0..2  *)
(* records with empty and non-empty fields, 0..3 supplier letters, header   *)
(* prose of several shapes, supplier lines indented with spaces (as in the  *)
(* distributed file), a tab, or a mixture.  Theorem: the independent reader *)
(* recovers suppliers and records.  Each state is an S->I case.             *)
EXTENDS RebaseFormat, Sequences, Json, CSV, IOUtils
VARIABLES prose, sup, nrec, shape, indent
vars == <<prose, sup, nrec, shape, indent>>
Proses == {<<>>, <<" ", "REBASE version 104                                              withrefm.104", "">>,
           <<"<ENZYME NAME>   Restriction enzyme name.", "<COMMERCIAL AVAILABILITY>", "                K        Takara (1/98)", "",
             "REBASE codes for commercial sources of enzymes are listed below.", "">>}
Sups == {<<>>, <<<<"B", "Life Technologies (3/21)">>>>,
         <<<<"B", "Life Technologies (3/21)">>, <<"N", "New England Biolabs (3/21)">>, <<"X", "EURx Ltd. (1/21)">>>>}
Indents == {"                ", "\t", "\t\t", "  \t "}
RecA == [name |-> "AaaI", iso |-> <<"XmaIII", "BseX3I", "EagI">>, site |-> "C^GGCCG", meth |-> "", org |-> "Acetobacter aceti ss aceti",
         src |-> "M. Fukaya", comm |-> "", ref |-> "Tagami, H., (1988) FEMS Microbiol. Lett., vol. 56, pp. 161-166."]
RecB == [name |-> "BsaI", iso |-> <<"Eco31I">>, site |-> "GGTCTC(1/5)", meth |-> "?(6)", org |-> "Bacillus stearothermophilus 6-55",
         src |-> "Z. Chen", comm |-> "NB", ref |-> "Kong, H., Unpublished observations."]
RecC == [name |-> "M.X", iso |-> <<"">>, site |-> "", meth |-> "2(5)", org |-> "", src |-> "", comm |-> "XNBX", ref |-> ""]
RecsFor(n, sh) == CASE n = 0 -> <<>> [] n = 1 -> (IF sh = 1 THEN <<RecA>> ELSE IF sh = 2 THEN <<RecB>> ELSE <<RecC>>)
                    [] n = 2 -> (IF sh = 1 THEN <<RecA, RecB>> ELSE IF sh = 2 THEN <<RecB, RecC>> ELSE <<RecC, RecA>>)
                    [] n = 3 -> <<RecA, RecB, RecC>>
L == [prose |-> prose, suppliers |-> sup, recs |-> RecsFor(nrec, shape)]
Init == prose = <<"init">> /\ sup = <<>> /\ nrec = 0 /\ shape = 0 /\ indent = ""
Next == prose = <<"init">> /\ prose' \in Proses /\ sup' \in Sups /\ nrec' \in 0..3 /\ shape' \in 1..3 /\ indent' \in Indents
Spec == Init /\ [][Next]_vars
Check == prose # <<"init">> =>
    /\ Read(Lines(L, indent)).suppliers = sup /\ Read(Lines(L, indent)).recs = L.recs
    /\ CSVWrite("%1$s", <<ToJson([lines |-> Lines(L, indent), names |-> [i \in 1..Len(L.recs) |-> L.recs[i].name],
                                   expected |-> [i \in 1..Len(L.recs) |-> ExpectedRec(sup, L.recs[i])]])>>, IOEnv.OUTFILE)
===========================================================================
