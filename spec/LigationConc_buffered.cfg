CONSTANTS M = 2
K = 2
UsedCheck = TRUE
ChanCap = 2
PoolSet = "all"
SPECIFICATION Spec
INVARIANTS WgNeverNegative NoSendOnClosed CloseAfterAllDone WgCountsLive ResultIsRings
PROPERTY Termination
CHECK_DEADLOCK FALSE
