----------------------------- MODULE C08_Trace -----------------------------
(* I->S for C08: histories recorded from the real codon-table API are       *)
(* replayed through the session machine (CodonSession.tla, both the Ideal   *)
(* and the AsBuilt machine), one event per public call return, each with    *)
(* the observed weights of every live handle and of a fresh request of the  *)
(* history's default tables.  The counting clause is decided here: the      *)
(* trace carries the coding sequence, TLC computes Count(s).                *)
(*   verdict ok        observation = Ideal machine                          *)
(*           dev:...   observation = AsBuilt machine only (shared slices)   *)
(*           bad       neither, or the genetic code of a table changed      *)
EXTENDS CodonSession, Json, CSV, IOUtils
Trace == ndJsonDeserialize(IOEnv.TRACEFILE)
VARIABLES l
vars == <<heap, hA, hI, touched, file, l>>

CodonSeq == [k \in 1..64 |-> B4[((k - 1) \div 16) + 1] \o B4[(((k - 1) \div 4) % 4) + 1] \o B4[((k - 1) % 4) + 1]]
LettersStr == [id \in Ids |-> Join([k \in 1..64 |-> Code[id][CodonSeq[k]]])]
FromSparse(sp) == [c \in Codons |-> IF c \in DOMAIN sp.x THEN sp.x[c] ELSE sp.d]
Key(h) == ToString(h)

Step(e) ==
    CASE e.op = "reset" -> SReset
      [] e.op = "get"   -> GetA(e.i, e.t)
      [] e.op = "rw"    -> ReweightA(e.h, Count(e.s))
      [] e.op = "add"   -> AddA(e.h1, e.h2, e.t)
      [] e.op = "comp"  -> CompromiseA(e.h1, e.h2, e.cut, e.t)
      [] e.op = "rt"    -> RoundtripA(e.h, e.t)
      [] e.op = "save"  -> SaveA(e.h)
      [] e.op = "load"  -> LoadA(e.t)
      [] e.op = "comperr" -> UNCHANGED svars
      [] e.op = "conc"  -> ConcReweightA(e.ids, [j \in 1..Len(e.seqs) |-> Count(e.seqs[j])])

(* judged on the primed (post-step) state *)
ShapeOK(e) == /\ \A h \in Handles : hA'[h].live = e.obs.handles[Key(h)].live
              /\ \A h \in Handles : hA'[h].live =>
                    ~e.obs.handles[Key(h)].malformed /\ e.obs.handles[Key(h)].letters = LettersStr[hA'[h].code]
              /\ \A j \in 1..Len(e.obs.fresh) : ~e.obs.fresh[j].malformed /\ e.obs.fresh[j].letters = LettersStr[e.obs.fresh[j].i]
IdealOK(e) == /\ \A h \in Handles : hA'[h].live => Matches(FromSparse(e.obs.handles[Key(h)].w), hI'[h].v, hI'[h].tol)
              /\ \A j \in 1..Len(e.obs.fresh) : FromSparse(e.obs.fresh[j].w) = Ones
AsBuiltOK(e) == /\ \A h \in Handles : hA'[h].live => Matches(FromSparse(e.obs.handles[Key(h)].w), heap'[hA'[h].addr], hI'[h].tol)
                /\ \A j \in 1..Len(e.obs.fresh) : FromSparse(e.obs.fresh[j].w) = heap'[StoreAddr(e.obs.fresh[j].i)]
Verdict(e) ==
    IF e.op = "reset" THEN [v |-> "ok", why |-> ""]
    ELSE IF e.op = "conc" /\ \E j \in 1..Len(e.ids) : FromSparse(e.results[j]) # Count(e.seqs[j])
         THEN [v |-> "bad", why |-> "a table re-weighted concurrently with tables of other ids does not hold exactly its own counts"]
    ELSE IF e.op = "comperr" THEN [v |-> "bad", why |-> "CompromiseCodonTable rejected a cut-off inside 0..1"]
    ELSE IF ~ShapeOK(e) THEN [v |-> "bad", why |-> "a table lost its shape or its codon -> amino-acid assignment"]
    ELSE IF IdealOK(e) THEN [v |-> "ok", why |-> ""]
    ELSE IF AsBuiltOK(e) THEN [v |-> "dev:C08-default-tables-share-slices", why |-> "weights leak between tables through shared default-table slices"]
    ELSE [v |-> "bad", why |-> "observed weights match neither the value-semantics nor the shared-slice machine (op " \o e.op \o ")"]

Init == SInit /\ l = 1
Next == /\ l <= Len(Trace)
        /\ LET e == Trace[l] IN
             /\ Step(e)
             /\ LET r == Verdict(e) IN CSVWrite("%1$s", <<ToJson([l |-> l, v |-> r.v, why |-> r.why])>>, IOEnv.VERDICTFILE)
        /\ l' = l + 1
Spec == Init /\ [][Next]_vars
Accepted == TLCGet("stats").diameter - 1 = Len(Trace)
============================================================================
