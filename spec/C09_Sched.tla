----------------------------- MODULE C09_Sched -----------------------------
(* Directed schedules for C09 (S->I): behaviours of LigationConc with the   *)
(* sequence of actions taken as a history variable.  The replayer steps the *)
(* real goroutines of clone.CircularLigate through each emitted schedule,   *)
(* using the verif hooks as gates: an action is "granted" by letting the    *)
(* goroutine that waits at the corresponding hook proceed.                  *)
(*   seed      MainSeed (main's spawn hook)                                 *)
(*   spawn g   GSpawn(g) (goroutine g's spawn hook)                         *)
(*   send g    GSend(g) (g's send hook; the collector's recv follows)       *)
(*   exit g    GExit(g) (g's deferred done hook)                            *)
(*   close     MainClose (main's closing hook)                              *)
(*   finish    CollFinish (the collector's result hook)                     *)
(* MainStartColl, MainWait and MainGet have no hook; they are taken eagerly *)
(* (nothing else that is enabled could be disabled by them).                *)
EXTENDS LigationConc, Json, CSV, IOUtils
VARIABLE sched
svars == <<vars, sched>>
Silent == MainStartColl \/ MainWait \/ MainGet
SilentEnabled == ENABLED MainStartColl \/ ENABLED MainWait \/ ENABLED MainGet
Step(a, g) == sched' = Append(sched, [a |-> a, g |-> g])
InitS == Init /\ sched = <<>>
NextS == IF SilentEnabled THEN Silent /\ UNCHANGED sched
         ELSE \/ MainSeed /\ Step("seed", 0)
              \/ MainClose /\ Step("close", 0)
              \/ CollFinish /\ Step("finish", 0)
              \/ \E g \in Gids : \/ GSpawn(g) /\ Step("spawn", g)
                                 \/ GSend(g) /\ Step("send", g)
                                 \/ GExit(g) /\ Step("exit", g)
SpecS == InitS /\ [][NextS]_svars /\ WF_svars(NextS)
Expected == [i \in 1..Len(result) |-> [k \in 1..Len(result[i]) |-> [i |-> result[i][k][1], d |-> result[i][k][2]]]]
EmitS == main.pc = "returned" =>
           CSVWrite("%1$s", <<ToJson([m |-> M, pool |-> pool, sched |-> sched, result |-> Expected,
                                      molecules |-> Cardinality(Molecules(pool))])>>, IOEnv.OUTFILE)
============================================================================
