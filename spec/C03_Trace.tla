----------------------------- MODULE C03_Trace -----------------------------
(* I->S for C03: recorded runs of genbank.Build / Write on parsed and on    *)
(* programmatically assembled records.                                      *)
(*  [x, lines, reparsed, deterministic, locsok, panic]                      *)
(*    x           the record given to Build (Expected form of               *)
(*                GenbankFormat.tla, maps as sorted pair lists)             *)
(*    lines       the text genbank.Build produced                           *)
(*    reparsed    the same projection of genbank.Parse(that text)           *)
(*    deterministic  eight Builds of x gave byte-identical text             *)
(*    locsok      every feature's Location structure survived the round trip*)
(*  (i) the specification's independent reader must recover x from lines;   *)
(*  (ii) reparsed = x; (iii) deterministic.                                 *)
EXTENDS GenbankFormat, Sequences, Json, CSV, IOUtils
Trace == ndJsonDeserialize(IOEnv.TRACEFILE)
VARIABLES l
PairSet(q) == {<<q[i][1], q[i][2]>> : i \in 1..Len(q)}
Canon(r) == [locus |-> r.locus, definition |-> r.definition, accession |-> r.accession, version |-> r.version, keywords |-> r.keywords,
             source |-> r.source, organism |-> r.organism,
             refs |-> [i \in 1..Len(r.refs) |-> [index |-> r.refs[i].index, range |-> r.refs[i].range, authors |-> r.refs[i].authors, title |-> r.refs[i].title,
                                                journal |-> r.refs[i].journal, pubmed |-> r.refs[i].pubmed, remark |-> r.refs[i].remark]],
             others |-> PairSet(r.others),
             feats |-> [i \in 1..Len(r.feats) |-> [key |-> r.feats[i].key, loc |-> r.feats[i].loc, quals |-> PairSet(r.feats[i].quals)]],
             origin |-> r.origin]
One(lines, k) == Len(TopIdx(lines, k)) = 1
Shaped(lines) == /\ One(lines, "LOCUS") /\ One(lines, "FEATURES") /\ One(lines, "ORIGIN") /\ One(lines, "//")
                 /\ Len(WordsOf(lines[TopIdx(lines, "LOCUS")[1]])) >= 8
                 /\ TopIdx(lines, "LOCUS")[1] < TopIdx(lines, "FEATURES")[1]
                 /\ TopIdx(lines, "FEATURES")[1] < TopIdx(lines, "ORIGIN")[1]
                 /\ TopIdx(lines, "ORIGIN")[1] < TopIdx(lines, "//")[1]
                 /\ \A i \in 1..Len(TopIdx(lines, "REFERENCE")) : Len(WordsOf(lines[TopIdx(lines, "REFERENCE")[i]])) >= 2
FirstDiff(a, b) == LET F == {f \in DOMAIN a : a[f] # b[f]} IN IF F = {} THEN "" ELSE CHOOSE f \in F : TRUE
Judge(e) ==
    IF e.panic # "" THEN "genbank.Build / Parse panicked: " \o e.panic
    ELSE IF ~e.deterministic THEN "two writes of the same record differ"
    ELSE LET x == Canon(e.x) IN
    (* poly's own parser first: a text it cannot read back is rejected before the specification's reader (which is *)
    (* written for GenBank-shaped text) looks at it                                                                *)
    IF Canon(e.reparsed) # x THEN "genbank.Parse(genbank.Build(x)) differs from x (first differing field: " \o FirstDiff(Canon(e.reparsed), x) \o ")"
    ELSE IF Len(e.lines) <= 700 /\ ~Shaped(e.lines)
       THEN "genbank.Build's text lacks the LOCUS / FEATURES / ORIGIN / terminator structure of a GenBank record"
    ELSE IF Len(e.lines) <= 700 /\ Canon(Read(e.lines)) # x
       THEN "an independent GenBank reader does not recover the record from genbank.Build's text (first differing field: " \o FirstDiff(Canon(Read(e.lines)), x) \o ")"
    ELSE IF ~e.locsok THEN "a feature's location structure changed in the round trip"
    ELSE "ok"
Init == l = 1
Next == /\ l <= Len(Trace)
        /\ LET r == Judge(Trace[l]) IN
             CSVWrite("%1$s", <<ToJson([l |-> l, v |-> IF r = "ok" THEN "ok" ELSE "bad", why |-> r])>>, IOEnv.VERDICTFILE)
        /\ l' = l + 1
Spec == Init /\ [][Next]_l
Accepted == TLCGet("stats").diameter - 1 = Len(Trace)
============================================================================
