------------------------------ MODULE Booth_MC ------------------------------
(* Booth's least-rotation algorithm - the algorithm seqhash.RotateSequence   *)
(* uses - as a state machine, transcribed from boothLeastRotation with one   *)
(* action per loop head:                                                      *)
(*   Outer   for characterIndex := 1 .. 2n-1: fetch character and failure     *)
(*   Inner   one iteration of the failure-function while loop                 *)
(*   After   the if / else that closes an outer iteration                     *)
(* for every string over 0..K-1 up to length N.  Checked: array accesses stay *)
(* in range, and on termination the returned index k satisfies k < n and the  *)
(* rotation at k is the declarative least rotation (Rotation!LeastRot).       *)
(* This is a design-level result about the algorithm poly chose; the verdict  *)
(* of C12 comes from comparing the REAL function with LeastRot.               *)
EXTENDS Rotation
CONSTANTS K, N
VARIABLES s, k, f, j, i, pc
vars == <<s, k, f, j, i, pc>>
n == Len(s)
DD(x) == s[(x % n) + 1]                      \* the doubled string, 0-based
Init == /\ s \in UNION {[1..m -> 0..K - 1] : m \in 1..N}
        /\ k = 0 /\ f = [x \in 0..2 * Len(s) - 1 |-> -1] /\ j = 1 /\ i = -1 /\ pc = "outer"
Outer == /\ pc = "outer"
         /\ IF j < 2 * n THEN /\ i' = f[j - k - 1] /\ pc' = "inner" /\ UNCHANGED <<s, k, f, j>>
                         ELSE /\ pc' = "done" /\ UNCHANGED <<s, k, f, j, i>>
Inner == /\ pc = "inner"
         /\ IF i # -1 /\ DD(j) # DD(k + i + 1)
            THEN /\ k' = IF DD(j) < DD(k + i + 1) THEN j - i - 1 ELSE k
                 /\ i' = f[i]
                 /\ UNCHANGED <<s, f, j, pc>>
            ELSE /\ pc' = "after" /\ UNCHANGED <<s, k, f, j, i>>
After == /\ pc = "after"
         /\ IF DD(j) # DD(k + i + 1)
            THEN LET k2 == IF DD(j) < DD(k) THEN j ELSE k IN
                 /\ k' = k2 /\ f' = [f EXCEPT ![j - k2] = -1]
            ELSE /\ k' = k /\ f' = [f EXCEPT ![j - k] = i + 1]
         /\ j' = j + 1 /\ pc' = "outer" /\ UNCHANGED <<s, i>>
Next == Outer \/ Inner \/ After
Spec == Init /\ [][Next]_vars /\ WF_vars(Next)
InRange == /\ pc = "outer" /\ j < 2 * n => j - k - 1 \in 0..2 * n - 1
           /\ pc = "inner" /\ i # -1 => i \in 0..2 * n - 1 /\ k + i + 1 \in 0..2 * n - 1
           /\ k \in 0..2 * n - 1
Correct == pc = "done" => k < n /\ Rot(s, k) = LeastRot(s)
Terminates == <>(pc = "done")
=============================================================================
