CONSTANTS K = 4
N = 6
TheoremN = 5
SPECIFICATION Spec
INVARIANTS Emit FastAgrees IsRotation Minimal OneCanonical
CHECK_DEADLOCK FALSE
