CONSTANTS Mode = "cells"
N = 0
HomIds = {1}
SPECIFICATION Spec
INVARIANTS Emit Hom
CHECK_DEADLOCK FALSE
