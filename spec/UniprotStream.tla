--------------------------- MODULE UniprotStream ---------------------------
(* The streaming Uniprot XML parser (C20): a producer goroutine that walks  *)
(* the token stream and feeds two caller-supplied channels (entries, errors)*)
(* and a consumer.  A document is abstracted to                             *)
(*    k        number of complete <entry> elements before any damage        *)
(*    damaged  the stream is malformed / truncated after them               *)
(*    partial  the damage lies inside entry k+1 (its decoding fails) rather *)
(*             than between entries (the tokenizer fails)                   *)
(* After damage the XML tokenizer returns the same error on every call.     *)
(*                                                                          *)
(* Mode selects the parser loop:                                            *)
(*   "closefirst"  on the first error: close(entries); errors <- err;       *)
(*                 close(errors); return            (the repaired code)     *)
(*   "breakonly"   errors <- err; break; close both (the obvious repair:    *)
(*                 deadlocks an unbuffered error channel under the          *)
(*                 documented 'entries first, then errors' consumer)        *)
(*   "asbuilt"     errors <- err; continue          (the code as first      *)
(*                 built: the same error for ever, channels never closed)   *)
(* Disc selects the consumer: "seq" drains entries until closed, then       *)
(* errors (the documented usage); "both" receives from either channel.      *)
EXTENDS Integers, Sequences, TLC, Json, CSV, IOUtils
CONSTANTS MaxK, MaxCap, Mode
VARIABLES k, damaged, partial, disc, ce, cr,      \* the scenario
          pc, pos, echan, rchan, eclosed, rclosed, \* parser and channels (rchan = number of buffered errors)
          gotE, gotR, cpc, sentpartial             \* consumer
vars == <<k, damaged, partial, disc, ce, cr, pc, pos, echan, rchan, eclosed, rclosed, gotE, gotR, cpc, sentpartial>>
scenario == <<k, damaged, partial, disc, ce, cr>>

Init == /\ k \in 0..MaxK /\ damaged \in BOOLEAN /\ partial \in BOOLEAN /\ (partial => damaged)
        /\ disc \in {"seq", "both"} /\ ce \in 0..MaxCap /\ cr \in 0..MaxCap
        /\ pc = "token" /\ pos = 1 /\ echan = <<>> /\ rchan = 0 /\ eclosed = FALSE /\ rclosed = FALSE
        /\ gotE = <<>> /\ gotR = 0 /\ cpc = "entries" /\ sentpartial = FALSE

(* what the next Token() call yields *)
NextTok == IF pos <= k THEN "entry" ELSE IF ~damaged THEN "eof" ELSE IF partial /\ pos = k + 1 /\ ~sentpartial THEN "badentry" ELSE "err"

ConsumerTakesE == cpc = "entries" \/ (disc = "both" /\ cpc # "done")
ConsumerTakesR == cpc = "errors" \/ (disc = "both" /\ cpc # "done")

(* parser steps *)
Token == /\ pc = "token"
         /\ CASE NextTok = "entry"    -> pc' = "sendentry"
              [] NextTok = "eof"      -> pc' = "closeboth"
              [] NextTok = "err"      -> pc' = IF Mode = "closefirst" THEN "closeE" ELSE "senderr"
              [] NextTok = "badentry" -> pc' = IF Mode = "closefirst" THEN "closeE" ELSE "senderr_partial"
         /\ UNCHANGED <<scenario, pos, echan, rchan, eclosed, rclosed, gotE, gotR, cpc, sentpartial>>
(* entries <- e  (buffered, or rendezvous when the capacity is 0) *)
SendEntry == /\ pc = "sendentry" /\ ~eclosed
             /\ \/ /\ ce > 0 /\ Len(echan) < ce /\ echan' = Append(echan, pos) /\ UNCHANGED gotE
                \/ /\ ce = 0 /\ ConsumerTakesE /\ gotE' = Append(gotE, pos) /\ UNCHANGED echan
             /\ pos' = pos + 1 /\ pc' = "token"
             /\ UNCHANGED <<scenario, rchan, eclosed, rclosed, gotR, cpc, sentpartial>>
(* errors <- err *)
SendErrCommon == \/ /\ cr > 0 /\ rchan < cr /\ rchan' = rchan + 1 /\ UNCHANGED gotR
                 \/ /\ cr = 0 /\ ConsumerTakesR /\ gotR' = gotR + 1 /\ UNCHANGED rchan
SendErr == /\ pc = "senderr" /\ ~rclosed /\ SendErrCommon
           /\ pc' = CASE Mode = "asbuilt" -> "token" [] Mode = "breakonly" -> "closeboth" [] Mode = "closefirst" -> "closeR"
           /\ UNCHANGED <<scenario, pos, echan, eclosed, rclosed, gotE, cpc, sentpartial>>
(* as built / breakonly: a failed entry decode reports the error and still sends the partial entry *)
SendErrPartial == /\ pc = "senderr_partial" /\ ~rclosed /\ SendErrCommon
                  /\ sentpartial' = TRUE
                  /\ pc' = IF Mode = "breakonly" THEN "closeboth" ELSE "sendentry"
                  /\ UNCHANGED <<scenario, pos, echan, eclosed, rclosed, gotE, cpc>>
CloseE == /\ pc = "closeE" /\ eclosed' = TRUE /\ pc' = "senderr"
          /\ UNCHANGED <<scenario, pos, echan, rchan, rclosed, gotE, gotR, cpc, sentpartial>>
CloseR == /\ pc = "closeR" /\ rclosed' = TRUE /\ pc' = "done"
          /\ UNCHANGED <<scenario, pos, echan, rchan, eclosed, gotE, gotR, cpc, sentpartial>>
CloseBoth == /\ pc = "closeboth" /\ eclosed' = TRUE /\ rclosed' = TRUE /\ pc' = "done"
             /\ UNCHANGED <<scenario, pos, echan, rchan, gotE, gotR, cpc, sentpartial>>
(* consumer steps *)
RecvE == /\ ConsumerTakesE /\ echan # <<>> /\ gotE' = Append(gotE, Head(echan)) /\ echan' = Tail(echan)
         /\ UNCHANGED <<scenario, pc, pos, rchan, eclosed, rclosed, gotR, cpc, sentpartial>>
RecvR == /\ ConsumerTakesR /\ rchan > 0 /\ gotR' = gotR + 1 /\ rchan' = rchan - 1
         /\ UNCHANGED <<scenario, pc, pos, echan, eclosed, rclosed, gotE, cpc, sentpartial>>
EntriesDrained == /\ disc = "seq" /\ cpc = "entries" /\ eclosed /\ echan = <<>> /\ cpc' = "errors"
                  /\ UNCHANGED <<scenario, pc, pos, echan, rchan, eclosed, rclosed, gotE, gotR, sentpartial>>
AllDrained == /\ cpc # "done" /\ (disc = "seq" => cpc = "errors") /\ eclosed /\ rclosed /\ echan = <<>> /\ rchan = 0
              /\ cpc' = "done"
              /\ UNCHANGED <<scenario, pc, pos, echan, rchan, eclosed, rclosed, gotE, gotR, sentpartial>>
Next == Token \/ SendEntry \/ SendErr \/ SendErrPartial \/ CloseE \/ CloseR \/ CloseBoth \/ RecvE \/ RecvR \/ EntriesDrained \/ AllDrained
Spec == Init /\ [][Next]_vars /\ WF_vars(Next)

(* S->I: one case per scenario (written from the initial states) *)
EmitScenario == (pc = "token" /\ pos = 1 /\ gotE = <<>> /\ gotR = 0 /\ ~eclosed /\ ~rclosed /\ echan = <<>> /\ rchan = 0 /\ cpc = "entries" /\ ~sentpartial) =>
    CSVWrite("%1$s", <<ToJson([k |-> k, damaged |-> damaged, partial |-> partial, disc |-> disc, ce |-> ce, cr |-> cr])>>, IOEnv.OUTFILE)

(* ---- properties ---- *)
InOrder == \A i \in 1..Len(gotE) : gotE[i] = i                       \* document order, each once
Outcome == cpc = "done" =>
             /\ eclosed /\ rclosed
             /\ IF damaged THEN Len(gotE) \in {k, k + 1} /\ gotR >= 1 ELSE Len(gotE) = k /\ gotR = 0
NoSendOnClosed == (pc = "sendentry" => ~eclosed) /\ (pc \in {"senderr", "senderr_partial"} => ~rclosed)
Termination == <>(cpc = "done")
=============================================================================
