CONSTANTS EnzymeName = "e1"
N = 9
TheoremN = 8
SPECIFICATION Spec
INVARIANTS Emit RotationInvariant LinearInside
CHECK_DEADLOCK FALSE
