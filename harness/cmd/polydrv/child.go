package main

// childMain dispatches risky calls that run in a child process under a
// deadline and an address-space limit (see c09.go, c20.go).
var children = map[string]func(args []string){}

func childMain(prop string, args []string) {
	f := children[prop]
	if f == nil {
		fatal("no child entry for %s", prop)
	}
	f(args)
}
