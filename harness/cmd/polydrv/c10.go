package main

import (
	"encoding/json"
	"fmt"
	"math/rand"
	"regexp"
	"sort"
	"strings"

	"github.com/TimothyStiles/poly/clone"
)

type specEnzyme struct {
	Site  string `json:"site"`
	Rsite string `json:"rsite"`
	Skip  int    `json:"skip"`
	Ovh   int    `json:"ovh"`
}

func (e specEnzyme) real() clone.Enzyme {
	// the name is a label: a custom enzyme may carry any, also a built-in's
	name := []string{"custom", "BsaI", "BbsI", "BtgZI", ""}[(len(e.Site)+e.Ovh)%5]
	return clone.Enzyme{Name: name, RegexpFor: regexp.MustCompile(e.Site), RegexpRev: regexp.MustCompile(e.Rsite),
		Skip: e.Skip, OverhangLen: e.Ovh, RecognitionSite: e.Site}
}

type specFrag struct {
	Fo  string `json:"fo"`
	Seq string `json:"seq"`
	Ro  string `json:"ro"`
	At  int    `json:"at"`
}

func fragKey(fo, seq, ro string) string { return fo + "|" + seq + "|" + ro }

func bagOfReal(fr []clone.Fragment) []string {
	var k []string
	for _, f := range fr {
		k = append(k, fragKey(f.ForwardOverhang, f.Sequence, f.ReverseOverhang))
	}
	sort.Strings(k)
	return k
}
func bagOfSpec(fr []specFrag, drop map[string]int) []string {
	var k []string
	d := map[string]int{}
	for x, n := range drop {
		d[x] = n
	}
	for _, f := range fr {
		key := fragKey(f.Fo, f.Seq, f.Ro)
		if d[key] > 0 {
			d[key]--
			continue
		}
		k = append(k, key)
	}
	sort.Strings(k)
	return k
}

func c10Replay(c json.RawMessage) Verdict {
	var cs struct {
		S      string
		Enzyme specEnzyme
		Cases  []struct {
			Circ, Indomain bool
			Frags, Dropped []specFrag
		}
	}
	if err := json.Unmarshal(c, &cs); err != nil {
		fatal("C10 case: %v", err)
	}
	enz := cs.Enzyme.real()
	nontrivial := false
	var devv *Verdict
	for _, k := range cs.Cases {
		if !k.Indomain {
			continue
		}
		if len(k.Frags) > 0 {
			nontrivial = true
		}
		ideal := bagOfSpec(k.Frags, nil)
		drop := map[string]int{}
		for _, f := range k.Dropped {
			drop[fragKey(f.Fo, f.Seq, f.Ro)]++
		}
		built := bagOfSpec(k.Frags, drop)
		for _, in := range []string{cs.S, strings.ToLower(cs.S)} {
			got := bagOfReal(clone.CutWithEnzyme(clone.Part{Sequence: in, Circular: k.Circ}, true, enz))
			switch {
			case strings.Join(got, ";") == strings.Join(ideal, ";"):
			case strings.Join(got, ";") == strings.Join(built, ";"):
				v := dev("C10-forward-site-at-origin", "CutWithEnzyme(%q circular=%v, %+v) = %v; geometry says %v", in, k.Circ, cs.Enzyme, got, ideal)
				devv = &v
			default:
				return bad("CutWithEnzyme(%q circular=%v, site %s skip %d overhang %d) = %v; enzyme geometry says %v", in, k.Circ, cs.Enzyme.Site, cs.Enzyme.Skip, cs.Enzyme.Ovh, got, ideal)
			}
		}
	}
	if devv != nil {
		return *devv
	}
	return ok(nontrivial)
}

var builtinEnzymes = map[string]specEnzyme{
	"BsaI":  {"GGTCTC", "GAGACC", 1, 4},
	"BbsI":  {"GAAGAC", "GTCTTC", 2, 4},
	"BtgZI": {"GCGATG", "CATCGC", 10, 4},
}

func rcDNA(s string) string { return rcIUPAC(s) }

// siteScan: all (possibly overlapping) occurrences of the two words, cyclically if circ
func countSites(s string, e specEnzyme, circ bool) int {
	t := s
	if circ {
		t = s + s[:len(e.Site)-1]
	}
	n := 0
	for i := 0; i+len(e.Site) <= len(t); i++ {
		if t[i:i+len(e.Site)] == e.Site || t[i:i+len(e.Site)] == e.Rsite {
			n++
		}
	}
	return n
}

// genLayout builds a sequence with k sites in random orientation at spacing that respects the domain
func genLayout(rng *rand.Rand, e specEnzyme, k, minLen, maxLen int, circ bool) string {
	for try := 0; try < 200; try++ {
		var b strings.Builder
		filler := func(n int) {
			for i := 0; i < n; i++ {
				b.WriteByte("ACGT"[rng.Intn(4)])
			}
		}
		room := 2*e.Skip + 2*e.Ovh
		filler(rng.Intn(12))
		for i := 0; i < k; i++ {
			if rng.Intn(2) == 0 {
				b.WriteString(e.Site)
			} else {
				b.WriteString(e.Rsite)
			}
			g := room + rng.Intn(40)
			if rng.Intn(3) == 0 {
				g = room // tightest spacing at which the cuts of a forward and a backward site do not cross
			} else if rng.Intn(5) == 0 {
				g = rng.Intn(room + 1) // closer still: a backward site's cut may lie upstream of the forward site's cut
			}
			filler(g)
		}
		for b.Len() < minLen {
			filler(1 + rng.Intn(30))
		}
		if extra := maxLen - b.Len(); extra > 0 && rng.Intn(2) == 0 {
			filler(rng.Intn(extra))
		}
		s := b.String()
		if countSites(s, e, circ) == k && len(s) <= maxLen+200 {
			return s
		}
	}
	return "ACGTACGTACGTACGTACGT"
}

func c10Record(tier string, seed int64, emit func(interface{})) {
	rng := rand.New(rand.NewSource(seed))
	nLayouts, maxLen, rotLen := 25, 600, 120
	if tier == "thorough" {
		nLayouts, maxLen, rotLen = 150, 3000, 300
	}
	g := 0
	cut := func(e specEnzyme, name, s string, circ bool) {
		var fr []clone.Fragment
		// a panic is an outcome like any other: the specification decides whether the layout is one the property
		// speaks about (the closely spaced layouts of the generator are not all inside its domain)
		panicked := func() (msg string) {
			defer func() {
				if r := recover(); r != nil {
					msg = fmt.Sprint(r)
				}
			}()
			if name != "" {
				fr, _ = clone.CutWithEnzymeByName(clone.Part{Sequence: s, Circular: circ}, true, name)
			} else {
				fr = clone.CutWithEnzyme(clone.Part{Sequence: s, Circular: circ}, true, e.real())
			}
			return ""
		}()
		out := []map[string]string{}
		for _, f := range fr {
			out = append(out, map[string]string{"fo": f.ForwardOverhang, "seq": f.Sequence, "ro": f.ReverseOverhang})
		}
		emit(map[string]interface{}{"k": "cut", "g": g, "enzyme": e, "s": strings.ToUpper(s), "circ": circ, "frags": out, "panic": panicked})
	}
	names := []string{"BsaI", "BbsI", "BtgZI"}
	// every built-in enzyme by name on a small carrier plasmid with one forward and one backward site around an
	// insert, stored at EVERY rotation: the site straddles the origin by 1, 2, ... letters in turn
	for _, name := range names {
		e := builtinEnzymes[name]
		for {
			p := randDNA(rng, 5+rng.Intn(20)) + e.Site + randDNA(rng, e.Skip) + randDNA(rng, e.Ovh) + randDNA(rng, 8+rng.Intn(20)) +
				randDNA(rng, e.Ovh) + randDNA(rng, e.Skip) + e.Rsite + randDNA(rng, 5+rng.Intn(20))
			if countSites(p, e, true) != 2 {
				continue
			}
			g++
			for r := 0; r < len(p); r++ {
				cut(e, name, p[r:]+p[:r], true)
			}
			break
		}
	}
	// the same cassette twice in one part (unit + unit): two textually identical fragments are two fragments
	for _, name := range names {
		e := builtinEnzymes[name]
		for {
			unit := randDNA(rng, 4+rng.Intn(10)) + e.Site + randDNA(rng, e.Skip) + randDNA(rng, e.Ovh) + randDNA(rng, 6+rng.Intn(12)) +
				randDNA(rng, e.Ovh) + randDNA(rng, e.Skip) + e.Rsite + randDNA(rng, 4+rng.Intn(10))
			p := unit + unit
			if countSites(p, e, true) != 4 {
				continue
			}
			g++
			cut(e, name, p, false)
			g++
			for r := 0; r < len(p); r += 1 + len(p)/40 {
				cut(e, name, p[r:]+p[:r], true)
			}
			break
		}
	}
	// ordered amplicons: linear parts whose outermost sites (either orientation) sit 0, 1, 2 letters from the ends,
	// for a built-in enzyme, for HgaI (overhang as long as the site) and for a random enzyme of that kind
	{
		var site string
		for {
			site = randDNA(rng, 3+rng.Intn(4))
			if site != rcDNA(site) {
				break
			}
		}
		for _, e := range []specEnzyme{builtinEnzymes["BsaI"], {"GACGC", "GCGTC", 5, 5}, {site, rcDNA(site), rng.Intn(6), len(site)}} {
			for _, o := range [][2]string{{e.Site, e.Rsite}, {e.Site, e.Site}, {e.Rsite, e.Rsite}, {e.Rsite, e.Site}} {
				for d := 0; d < 3; d++ {
					for try := 0; try < 50; try++ {
						gap := func() string { return randDNA(rng, e.Skip+e.Ovh+rng.Intn(3)) }
						p := randDNA(rng, d) + o[0] + gap() + randDNA(rng, 8+rng.Intn(12)) + gap() + o[1] + randDNA(rng, []int{d, 0, 7}[rng.Intn(3)])
						if countSites(p, e, false) != 2 {
							continue
						}
						g++
						cut(e, "", p, false)
						break
					}
				}
			}
		}
	}
	for i := 0; i < nLayouts; i++ {
		var e specEnzyme
		name := ""
		if rng.Intn(3) > 0 {
			name = names[rng.Intn(3)]
			e = builtinEnzymes[name]
		} else if rng.Intn(4) == 0 { // odd-length sites whose flanks are reverse-complementary (PleI-like)
			e = []specEnzyme{{"GAGTC", "GACTC", 4, 1}, {"GAC", "GTC", 1, 1}, {"CCTGG", "CCAGG", 2, 2}}[rng.Intn(3)]
		} else if rng.Intn(4) == 0 { // real type IIS enzymes whose overhang is as long as the site, or that cut far away
			e = []specEnzyme{{"GACGC", "GCGTC", 5, 5}, {"GCAGC", "GCTGC", 8, 4}, {"GGATG", "CATCC", 9, 4}, {"GCTCTTC", "GAAGAGC", 1, 3}, {"CGTCTC", "GAGACG", 1, 4}}[rng.Intn(5)]
		} else { // random custom non-palindromic enzyme
			for {
				site := make([]byte, 3+rng.Intn(5))
				for j := range site {
					site[j] = "ACGT"[rng.Intn(4)]
				}
				e = specEnzyme{string(site), rcDNA(string(site)), rng.Intn(4), 1 + rng.Intn(3)}
				if rng.Intn(3) == 0 {
					e.Skip, e.Ovh = rng.Intn(11), 1+rng.Intn(len(site))
				}
				if e.Site != e.Rsite && e.Ovh <= len(e.Site) {
					break
				}
			}
		}
		k := rng.Intn(7)
		// linear part
		g++
		s := genLayout(rng, e, k, 20, maxLen, false)
		if k > 0 && rng.Intn(2) == 0 { // an ordered amplicon: the outermost sites sit flush (or nearly) against the ends
			first, last := -1, -1
			for j := 0; j+len(e.Site) <= len(s); j++ {
				if s[j:j+len(e.Site)] == e.Site || s[j:j+len(e.Site)] == e.Rsite {
					if first < 0 {
						first = j
					}
					last = j
				}
			}
			if end := last + len(e.Site) + rng.Intn(e.Ovh+e.Skip+3); first >= 0 && end <= len(s) && rng.Intn(4) > 0 {
				s = s[:end]
			}
			if d := rng.Intn(e.Ovh + e.Skip + 3); first >= d && rng.Intn(2) == 0 {
				s = s[first-d:]
			}
		}
		if rng.Intn(3) == 0 {
			s = strings.ToLower(s)
		}
		cut(e, name, s, false)
		// circular part: every rotation of small plasmids, a few rotations of large ones
		g++
		small := rng.Intn(2) == 0
		mx := maxLen
		if small {
			mx = rotLen
		}
		p := genLayout(rng, e, k, 20, mx, true)
		if len(p) <= rotLen {
			for r := 0; r < len(p); r++ {
				cut(e, name, p[r:]+p[:r], true)
			}
		} else {
			for j := 0; j < 6; j++ {
				r := rng.Intn(len(p))
				cut(e, name, p[r:]+p[:r], true)
			}
		}
	}
	_ = fmt.Sprint
}

func init() {
	registry["C10"] = &Prop{Replay: c10Replay, Record: c10Record}
}
