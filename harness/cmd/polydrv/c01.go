package main

import (
	"encoding/json"
	"fmt"
	"math/rand"
	"os"
	"sort"
	"strings"

	"github.com/TimothyStiles/poly"
	"github.com/TimothyStiles/poly/io/genbank"
)

// ---- the Expected form of GenbankFormat.tla ----
type gbLocus struct {
	Name string `json:"name"`
	Len  string `json:"len"`
	Mol  string `json:"mol"`
	Topo string `json:"topo"`
	Div  string `json:"div"`
	Date string `json:"date"`
}
type gbRef struct {
	Index   string `json:"index"`
	Range   string `json:"range"`
	Authors string `json:"authors"`
	Title   string `json:"title"`
	Journal string `json:"journal"`
	Pubmed  string `json:"pubmed"`
	Remark  string `json:"remark"`
}
type gbFeat struct {
	Key   string      `json:"key"`
	Loc   string      `json:"loc"`
	Quals [][2]string `json:"quals"`
}
type gbRec struct {
	Locus      gbLocus     `json:"locus"`
	Definition string      `json:"definition"`
	Accession  string      `json:"accession"`
	Version    string      `json:"version"`
	Keywords   string      `json:"keywords"`
	Source     string      `json:"source"`
	Organism   string      `json:"organism"`
	Refs       []gbRef     `json:"refs"`
	Others     [][2]string `json:"others"`
	Feats      []gbFeat    `json:"feats"`
	Origin     string      `json:"origin"`
}

func sortPairs(p [][2]string) [][2]string {
	q := append([][2]string{}, p...)
	sort.Slice(q, func(i, j int) bool { return q[i][0] < q[j][0] || (q[i][0] == q[j][0] && q[i][1] < q[j][1]) })
	return q
}

// canonical form for comparison: qualifiers and other keywords are maps in poly, so they are compared sorted by key
func (r gbRec) canon() gbRec {
	c := r
	c.Others = sortPairs(r.Others)
	if c.Refs == nil {
		c.Refs = []gbRef{}
	}
	c.Feats = []gbFeat{}
	for _, f := range r.Feats {
		c.Feats = append(c.Feats, gbFeat{f.Key, f.Loc, sortPairs(f.Quals)})
	}
	return c
}

func projectGb(s poly.Sequence) gbRec {
	l := s.Meta.Locus
	topo := ""
	if l.Circular {
		topo = "circular"
	} else if l.Linear {
		topo = "linear"
	}
	r := gbRec{Locus: gbLocus{l.Name, l.SequenceLength, l.MoleculeType, topo, l.GenbankDivision, l.ModificationDate},
		Definition: s.Meta.Definition, Accession: s.Meta.Accession, Version: s.Meta.Version, Keywords: s.Meta.Keywords,
		Source: s.Meta.Source, Organism: s.Meta.Organism, Origin: s.Sequence, Refs: []gbRef{}, Others: [][2]string{}, Feats: []gbFeat{}}
	for _, x := range s.Meta.References {
		r.Refs = append(r.Refs, gbRef{x.Index, x.Range, x.Authors, x.Title, x.Journal, x.PubMed, x.Remark})
	}
	for k, v := range s.Meta.Other {
		r.Others = append(r.Others, [2]string{k, v})
	}
	for _, f := range s.Features {
		g := gbFeat{Key: f.Type, Loc: f.GbkLocationString, Quals: [][2]string{}}
		for k, v := range f.Attributes {
			g.Quals = append(g.Quals, [2]string{k, v})
		}
		r.Feats = append(r.Feats, g)
	}
	return r.canon()
}

func diffGb(got, want gbRec) string {
	g, w := got.canon(), want.canon()
	if g.Locus != w.Locus {
		return fmt.Sprintf("LOCUS parsed as %+v, the record states %+v", g.Locus, w.Locus)
	}
	for _, f := range [][3]string{{"DEFINITION", g.Definition, w.Definition}, {"ACCESSION", g.Accession, w.Accession}, {"VERSION", g.Version, w.Version},
		{"KEYWORDS", g.Keywords, w.Keywords}, {"SOURCE", g.Source, w.Source}, {"ORGANISM", g.Organism, w.Organism}} {
		if f[1] != f[2] {
			return fmt.Sprintf("%s parsed as %q, the record states %q", f[0], f[1], f[2])
		}
	}
	if fmt.Sprintf("%q", g.Refs) != fmt.Sprintf("%q", w.Refs) {
		return fmt.Sprintf("references parsed as %q, the record states %q", g.Refs, w.Refs)
	}
	if fmt.Sprintf("%q", g.Others) != fmt.Sprintf("%q", w.Others) {
		return fmt.Sprintf("other keyword blocks parsed as %q, the record states %q", g.Others, w.Others)
	}
	if len(g.Feats) != len(w.Feats) {
		return fmt.Sprintf("%d features parsed, the record has %d", len(g.Feats), len(w.Feats))
	}
	for i := range w.Feats {
		if fmt.Sprintf("%q", g.Feats[i]) != fmt.Sprintf("%q", w.Feats[i]) {
			return fmt.Sprintf("feature %d parsed as %q, the record states %q", i+1, g.Feats[i], w.Feats[i])
		}
	}
	if g.Origin != w.Origin {
		return fmt.Sprintf("ORIGIN: %d letters parsed, the record has %d (or letters differ)", len(g.Origin), len(w.Origin))
	}
	return ""
}

func safeGb(f func() []poly.Sequence) (out []poly.Sequence, perr string) {
	defer func() {
		if r := recover(); r != nil {
			perr = fmt.Sprintf("panic: %v", r)
		}
	}()
	return f(), ""
}

var flatHeader = "GBTEST1.SEQ          Genetic Sequence Data Bank\n                          June 15 2020\n\n                NCBI-GenBank Flat File Release 238.0\n\n                     Test Sequences (Part 1)\n\n       3 loci,        237 bases, from        3 reported sequences\n\n\n"

// checkGbText runs the text of one or more records through every entry point
func checkGbText(records [][]string, want []gbRec) string {
	var texts []string
	for _, r := range records {
		texts = append(texts, strings.Join(r, "\n"))
	}
	single := texts[0] + "\n"
	// Parse / Read of a single record, with and without the final newline
	for _, t := range []string{single, texts[0]} {
		got, perr := safeGb(func() []poly.Sequence { return []poly.Sequence{genbank.Parse([]byte(t))} })
		if perr != "" {
			return "genbank.Parse: " + perr
		}
		if d := diffGb(projectGb(got[0]), want[0]); d != "" {
			return "genbank.Parse: " + d
		}
	}
	p := tmpFile([]byte(single))
	got, perr := safeGb(func() []poly.Sequence { return []poly.Sequence{genbank.Read(p)} })
	os.Remove(p)
	if perr != "" {
		return "genbank.Read: " + perr
	}
	if d := diffGb(projectGb(got[0]), want[0]); d != "" {
		return "genbank.Read: " + d
	}
	// k records in one file, with and without the final newline; with the 10-line flat-file header
	for _, final := range []string{"\n", ""} {
		multi := strings.Join(texts, "\n") + final
		for _, mode := range []string{"multi", "flat", "readmulti", "readflat", "readflatgz"} {
			var gotm []poly.Sequence
			var perr string
			switch mode {
			case "multi":
				gotm, perr = safeGb(func() []poly.Sequence { return genbank.ParseMulti([]byte(multi)) })
			case "flat":
				gotm, perr = safeGb(func() []poly.Sequence { return genbank.ParseFlat([]byte(flatHeader + multi)) })
			default: // the path-taking siblings
				var p string
				switch mode {
				case "readmulti":
					p = tmpFile([]byte(multi))
					gotm, perr = safeGb(func() []poly.Sequence { return genbank.ReadMulti(p) })
				case "readflat":
					p = tmpFile([]byte(flatHeader + multi))
					gotm, perr = safeGb(func() []poly.Sequence { return genbank.ReadFlat(p) })
				default:
					p = tmpFile(gz([]byte(flatHeader + multi)))
					gotm, perr = safeGb(func() []poly.Sequence { return genbank.ReadFlatGz(p) })
				}
				os.Remove(p)
			}
			name := map[string]string{"multi": "genbank.ParseMulti", "flat": "genbank.ParseFlat", "readmulti": "genbank.ReadMulti", "readflat": "genbank.ReadFlat", "readflatgz": "genbank.ReadFlatGz"}[mode]
			if final == "" {
				name += " (file without final newline)"
			}
			if perr != "" {
				return name + ": " + perr
			}
			if len(gotm) != len(want) {
				return fmt.Sprintf("%s: %d results for a file holding %d records", name, len(gotm), len(want))
			}
			for i := range want {
				if d := diffGb(projectGb(gotm[i]), want[i]); d != "" {
					return fmt.Sprintf("%s record %d: %s", name, i+1, d)
				}
			}
		}
	}
	return ""
}

var c01Seen [][]string
var c01Want []gbRec

func c01Replay(c json.RawMessage) Verdict {
	var cs struct {
		Rid      int
		Lines    []string
		Expected gbRec
	}
	if err := json.Unmarshal(c, &cs); err != nil {
		fatal("C01 case: %v: %.300s", err, c)
	}
	// files with several records: this record followed by up to two records seen before
	c08Mu.Lock()
	recs := [][]string{cs.Lines}
	wants := []gbRec{cs.Expected}
	for i := len(c01Seen) - 1; i >= 0 && len(recs) < 1+cs.Rid%3+1; i-- {
		recs = append(recs, c01Seen[i])
		wants = append(wants, c01Want[i])
	}
	c01Seen = append(c01Seen, cs.Lines)
	c01Want = append(c01Want, cs.Expected)
	c08Mu.Unlock()
	if d := checkGbText(recs, wants); d != "" {
		return bad("%s", d)
	}
	return ok(true)
}

// ---------------------------------------------------------------- the harness's own writer (large records)
type genQual struct {
	K      string
	Words  []string
	Quoted bool
	Glue   bool
}
type genFeat struct {
	Key   string
	Loc   []string
	Quals []genQual
}
type genRec struct {
	want                              gbRec
	feats                             []genFeat
	defw, accw, verw, kww, srcw, orgw []string
	refs                              [][7][]string
	others                            [][2]interface{}
}

// gbLongTokens: set by the recorders whose property covers text no writer can wrap (C03: Parse(Build(x)) = x)
var gbLongTokens bool

func wordsN(rng *rand.Rand, n int, extra string) []string {
	alpha := "abcdefghijklmnopqrstuvwxyzABCDEFGHIJKLMNOPQRSTUVWXYZ0123456789" + extra
	var ws []string
	for i := 0; i < n; i++ {
		b := make([]byte, 1+rng.Intn(10))
		for j := range b {
			b[j] = alpha[rng.Intn(len(alpha))]
		}
		if b[0] == '/' || b[0] == '"' {
			b[0] = 'x'
		}
		if b[len(b)-1] == '/' { // no line other than a record terminator may end in "//"
			b[len(b)-1] = 'y'
		}
		if gbLongTokens && rng.Intn(30) == 0 { // a blank-free token wider than a line (a URL, a run of identifiers)
			b = make([]byte, 60+rng.Intn(120))
			for j := range b {
				b[j] = "abcdefghijklmnopqrstuvwxyz0123456789:/._-%?&=~"[rng.Intn(46)]
			}
			copy(b, "https://")
			if b[len(b)-1] == '/' {
				b[len(b)-1] = 'y'
			}
		}
		if rng.Intn(12) == 0 { // a word that happens to be a keyword of the format
			b = []byte([]string{"FEATURES", "ORIGIN", "SOURCE", "REFERENCE", "DEFINITION", "ACCESSION", "VERSION", "LOCUS", "KEYWORDS", "COMMENT", "ORGANISM", "AUTHORS", "TITLE", "JOURNAL"}[rng.Intn(14)])
		}
		ws = append(ws, string(b))
	}
	return ws
}

func wrapWords(ws []string, w int) []string {
	var lines []string
	cur := ""
	for _, x := range ws {
		if cur == "" {
			cur = x
		} else if len(cur)+1+len(x) <= w {
			cur += " " + x
		} else {
			lines = append(lines, cur)
			cur = x
		}
	}
	if cur != "" {
		lines = append(lines, cur)
	}
	return lines
}

func block(key string, ws []string, w int) []string {
	ls := wrapWords(ws, w)
	pad := func(s string) string { return s + strings.Repeat(" ", 12-len(s)) }
	if len(ls) == 0 {
		return []string{pad(key)}
	}
	var out []string
	for i, l := range ls {
		if i == 0 {
			out = append(out, pad(key)+l)
		} else {
			out = append(out, strings.Repeat(" ", 12)+l)
		}
	}
	return out
}

// genGbRecord builds a random abstract record and lays it out with the harness's own writer
var gbNameTick int

// gbForce, when set, fixes the division, molecule type and topology of the next generated records
var gbForce struct{ div, mol, topo string }

var gbDivisions = []string{"PRI", "ROD", "MAM", "VRT", "INV", "PLN", "BCT", "VRL", "PHG", "SYN", "UNA", "EST", "PAT", "STS", "GSS", "HTG", "HTC", "ENV"}

// locusSweep calls f once for every division (18) x molecule type (4), topologies alternating
func locusSweep(f func()) {
	k := 0
	for _, d := range gbDivisions {
		for _, m := range []string{"DNA", "mRNA", "tRNA", "rRNA"} {
			gbForce.div, gbForce.mol, gbForce.topo = d, m, []string{"linear", "circular"}[k%2]
			k++
			f()
		}
	}
	gbForce.div = ""
}

func genGbRecord(rng *rand.Rand, maxSeq, maxFeats int) (lines []string, want gbRec) {
	if maxSeq < 0 { // one record well beyond 64 KiB of text
		maxSeq = 70000 + rng.Intn(20000)
		lines, want = genGbRecordN(rng, maxSeq, maxSeq, maxFeats)
		return
	}
	return genGbRecordN(rng, 0, maxSeq, maxFeats)
}

func genGbRecordN(rng *rand.Rand, fixedN, maxSeq, maxFeats int) (lines []string, want gbRec) {
	kw := 30 + rng.Intn(38)
	qw := 20 + rng.Intn(39)
	n := 1 + rng.Intn(maxSeq)
	if fixedN > 0 {
		n = fixedN
	}
	switch rng.Intn(4)*map[bool]int{true: 0, false: 1}[fixedN > 0] + map[bool]int{true: 9, false: 0}[fixedN > 0] {
	case 0:
		n = 1 + rng.Intn(130)
	case 1: // at and next to the boundaries of the 60-letter ORIGIN lines and their 10-letter blocks
		n = 60*(1+rng.Intn(1+maxSeq/60)) + rng.Intn(3) - 1
		if rng.Intn(3) == 0 {
			n = 10*(1+rng.Intn(30)) + rng.Intn(3) - 1
		}
		if n > maxSeq+1 {
			n = 60 * (1 + rng.Intn(20))
		}
	}
	sb := make([]byte, n)
	for i := range sb {
		sb[i] = "acgtn"[rng.Intn(5)]
	}
	want.Origin = string(sb)
	name := strings.ToLower(wordsN(rng, 1, "_")[0])
	if rng.Intn(5) == 0 {
		name = name[:1] + "b"
		name = name[:2]
	}
	gbNameTick++
	if gbNameTick%4 == 0 || gbForce.div != "" && gbNameTick%2 == 0 {
		// names that contain or equal a word the other LOCUS columns use: topology words, the unit, molecule types
		// and division codes (any case: C01 names lower-case locus names, C03 any record)
		tricky := []string{"linear", "circular", "bp", "aa", "dna", "mrna", "PRIMER1", "pDNA1", "TEST01", "tRNA_Ala", "ROD", "sSYN9", "PLNx", "HTGS", "ENV_2", "mRNA", "DNA", "BCT"}
		name = tricky[(gbNameTick/2)%len(tricky)]
	}
	want.Locus = gbLocus{name, fmt.Sprint(n), []string{"DNA", "mRNA", "tRNA", "rRNA"}[rng.Intn(4)], []string{"linear", "circular"}[rng.Intn(2)],
		[]string{"PRI", "ROD", "MAM", "VRT", "INV", "PLN", "BCT", "VRL", "PHG", "SYN", "UNA", "EST", "PAT", "STS", "GSS", "HTG", "HTC", "ENV"}[rng.Intn(18)], fmt.Sprintf("%02d-%s-%d", 1+rng.Intn(28), []string{"JAN", "FEB", "MAR", "APR", "MAY", "JUN", "JUL", "AUG", "SEP", "OCT", "NOV", "DEC"}[rng.Intn(12)], 1990+rng.Intn(35))}
	if gbForce.div != "" { // the LOCUS sweep: every division with every molecule type and topology
		want.Locus.Div, want.Locus.Mol, want.Locus.Topo = gbForce.div, gbForce.mol, gbForce.topo
	}
	lc := want.Locus
	if rng.Intn(2) == 0 {
		lines = append(lines, fmt.Sprintf("LOCUS       %-16s %11s bp    %-6s  %-8s %s %s", lc.Name, lc.Len, lc.Mol, lc.Topo, lc.Div, lc.Date))
	} else {
		lines = append(lines, "LOCUS       "+lc.Name+"  "+lc.Len+" bp  "+lc.Mol+"  "+lc.Topo+"  "+lc.Div+"  "+lc.Date)
	}
	txt := func(ws []string) string { return strings.Join(ws, " ") }
	def := wordsN(rng, 1+rng.Intn(30), ",.;:()-%&#@!?*+[]{}|~^$<>")
	acc, ver, kws := wordsN(rng, 1+rng.Intn(2), ""), wordsN(rng, 1+rng.Intn(2), ".:"), wordsN(rng, 1+rng.Intn(5), ";.")
	if rng.Intn(3) == 0 && len(ver[0]) < 40 { // the classic NCBI VERSION line: two blanks between the version and the GI number (a short
		// line that no writer wraps: runs of blanks at a wrap point cannot be represented)
		ver = []string{ver[0] + "  GI:" + fmt.Sprint(1000+rng.Intn(9000000))}
	}
	src, org := wordsN(rng, 1+rng.Intn(4), "."), wordsN(rng, 2+rng.Intn(14), ";.")
	want.Definition, want.Accession, want.Version, want.Keywords, want.Source, want.Organism = txt(def), txt(acc), txt(ver), txt(kws), txt(src), txt(org)
	lines = append(lines, block("DEFINITION", def, kw)...)
	lines = append(lines, block("ACCESSION", acc, kw)...)
	lines = append(lines, block("VERSION", ver, kw)...)
	lines = append(lines, block("KEYWORDS", kws, kw)...)
	lines = append(lines, block("SOURCE", src, kw)...)
	lines = append(lines, block("  ORGANISM", org, kw)...)
	want.Refs = []gbRef{}
	for i := 0; i < rng.Intn(6); i++ {
		rg := []string{"(bases", "1", "to", fmt.Sprint(n) + ")"}
		au, ti, jo := wordsN(rng, 1+rng.Intn(12), ",."), wordsN(rng, 1+rng.Intn(15), ",.-"), wordsN(rng, 1+rng.Intn(8), ",.()-")
		var pm, rm []string
		if rng.Intn(2) == 0 {
			pm = []string{fmt.Sprint(100000 + rng.Intn(900000))}
		}
		if rng.Intn(2) == 0 {
			rm = wordsN(rng, 1+rng.Intn(10), ",.")
		}
		want.Refs = append(want.Refs, gbRef{fmt.Sprint(i + 1), txt(rg), txt(au), txt(ti), txt(jo), txt(pm), txt(rm)})
		lines = append(lines, block("REFERENCE", append([]string{fmt.Sprint(i + 1)}, rg...), kw)...)
		lines = append(lines, block("  AUTHORS", au, kw)...)
		lines = append(lines, block("  TITLE", ti, kw)...)
		lines = append(lines, block("  JOURNAL", jo, kw)...)
		if pm != nil {
			lines = append(lines, block("   PUBMED", pm, kw)...)
		}
		if rm != nil {
			lines = append(lines, block("  REMARK", rm, kw)...)
		}
	}
	want.Others = [][2]string{}
	for _, k := range []string{"COMMENT", "DBLINK", "DBSOURCE"} {
		if rng.Intn(3) == 0 {
			ws := wordsN(rng, 1+rng.Intn(40), ",.:;()-")
			want.Others = append(want.Others, [2]string{k, txt(ws)})
			lines = append(lines, block(k, ws, kw)...)
		}
	}
	lines = append(lines, "FEATURES             Location/Qualifiers")
	want.Feats = []gbFeat{}
	for i := 0; i < rng.Intn(maxFeats+1); i++ {
		key := []string{"source", "gene", "CDS", "misc_feature", "tRNA", "rep_origin", "exon", "regulatory"}[rng.Intn(8)]
		var locPieces []string
		switch rng.Intn(6) {
		case 4, 5: // a location tree of the INSDC grammar: single bases, partial markers, nested operators
			g := genAst(rng, n, 1+rng.Intn(2))
			if g.kind == "join" {
				for j, x := range g.xs {
					p := x.text()
					if j == 0 {
						p = "join(" + p
					}
					if j == len(g.xs)-1 {
						p += ")"
					} else {
						p += ","
					}
					locPieces = append(locPieces, p)
				}
			} else {
				locPieces = []string{g.text()}
			}
		case 0:
			a := 1 + rng.Intn(n)
			locPieces = []string{fmt.Sprintf("%d..%d", a, a+rng.Intn(n-a+1))}
		case 1:
			a := 1 + rng.Intn(n)
			locPieces = []string{fmt.Sprintf("complement(%d..%d)", a, a+rng.Intn(n-a+1))}
		default:
			k := 2 + rng.Intn(7)
			for j := 0; j < k; j++ {
				a := 1 + rng.Intn(n)
				p := fmt.Sprintf("%d..%d", a, a+rng.Intn(n-a+1))
				if rng.Intn(3) == 0 {
					p = "complement(" + p + ")"
				}
				if j == 0 {
					p = "join(" + p
				}
				if j == k-1 {
					p += ")"
				} else {
					p += ","
				}
				locPieces = append(locPieces, p)
			}
		}
		f := gbFeat{Key: key, Loc: strings.Join(locPieces, ""), Quals: [][2]string{}}
		split := rng.Intn(2) == 0 && len(locPieces) > 1
		if split {
			for j, p := range locPieces {
				if j == 0 {
					lines = append(lines, "     "+key+strings.Repeat(" ", 16-len(key))+p)
				} else {
					lines = append(lines, strings.Repeat(" ", 21)+p)
				}
			}
		} else {
			lines = append(lines, "     "+key+strings.Repeat(" ", 16-len(key))+f.Loc)
		}
		nq := rng.Intn(6)
		used := map[string]bool{}
		for j := 0; j < nq; j++ {
			k := []string{"note", "product", "gene", "label", "db_xref", "function", "codon_start", "pseudo", "translation", "locus_tag"}[rng.Intn(10)]
			if used[k] {
				continue
			}
			used[k] = true
			ind := strings.Repeat(" ", 21)
			switch k {
			case "pseudo":
				f.Quals = append(f.Quals, [2]string{k, ""})
				lines = append(lines, ind+"/"+k)
			case "codon_start":
				v := fmt.Sprint(1 + rng.Intn(3))
				f.Quals = append(f.Quals, [2]string{k, v})
				lines = append(lines, ind+"/"+k+"="+v)
			case "translation":
				b := make([]byte, 1+rng.Intn(300))
				for x := range b {
					b[x] = "ACDEFGHIKLMNPQRSTVWY"[rng.Intn(20)]
				}
				f.Quals = append(f.Quals, [2]string{k, string(b)})
				whole := "/" + k + "=\"" + string(b) + "\""
				for len(whole) > 0 {
					c := qw
					if c > len(whole) {
						c = len(whole)
					}
					lines = append(lines, ind+whole[:c])
					whole = whole[c:]
				}
			default:
				if rng.Intn(12) == 0 || (gbForce.div != "" && j == 0) { // a qualifier whose value is the empty string
					f.Quals = append(f.Quals, [2]string{k, ""})
					lines = append(lines, ind+"/"+k+"=\"\"")
					continue
				}
				ws := wordsN(rng, 1+rng.Intn(25), "/=,.:;()-_'+*")
				f.Quals = append(f.Quals, [2]string{k, txt(ws)})
				ws2 := append([]string{}, ws...)
				ws2[0] = "/" + k + "=\"" + ws2[0]
				ws2[len(ws2)-1] += "\""
				for _, l := range wrapWords(ws2, qw) {
					lines = append(lines, ind+l)
				}
			}
		}
		want.Feats = append(want.Feats, f)
	}
	// keyword blocks BEHIND the feature table (where NCBI writes CONTIG and WGS lines)
	for _, k := range []string{"CONTIG", "WGS"} {
		if rng.Intn(5) == 0 {
			ws := wordsN(rng, 1+rng.Intn(20), ",.:()-")
			want.Others = append(want.Others, [2]string{k, txt(ws)})
			lines = append(lines, block(k, ws, kw)...)
		}
	}
	lines = append(lines, "ORIGIN")
	for i := 0; i < n; i += 60 {
		l := fmt.Sprintf("%9d", i+1)
		for j := i; j < i+60 && j < n; j += 10 {
			e := j + 10
			if e > n {
				e = n
			}
			l += " " + want.Origin[j:e]
		}
		lines = append(lines, l)
	}
	lines = append(lines, "//")
	return lines, want
}

func c01Record(tier string, seed int64, emit func(interface{})) {
	rng := rand.New(rand.NewSource(seed))
	n, maxSeq, maxFeats := 30, 3000, 12
	if tier == "thorough" {
		n, maxSeq, maxFeats = 300, 100000, 40
	}
	locusSweep(func() {
		l, w := genGbRecord(rng, 130, 2)
		emit(map[string]interface{}{"k": "parse", "lines": l, "want": w.canon(), "records": 1, "diff": checkGbText([][]string{l}, []gbRec{w})})
	})
	for i := 0; i < n; i++ {
		k := 1
		if rng.Intn(3) == 0 {
			k = 2 + rng.Intn(4)
		}
		var recs [][]string
		var wants []gbRec
		if i == 0 {
			k = 3 // a file whose middle record is far longer than 64 KiB
		}
		for j := 0; j < k; j++ {
			ms := maxSeq
			if j > 0 || i%4 != 0 {
				ms = 2000
			}
			if i == 0 && j == 1 {
				ms = -1
			}
			l, w := genGbRecord(rng, ms, maxFeats)
			recs = append(recs, l)
			wants = append(wants, w)
		}
		got := checkGbText(recs, wants)
		// the trace carries the first record's lines, the abstract record the writer was given and the verdict of the
		// field-by-field comparison of every entry point with that abstract record
		emit(map[string]interface{}{"k": "parse", "lines": recs[0], "want": wants[0].canon(), "records": k, "diff": got})
	}
}

func init() {
	registry["C01"] = &Prop{Replay: c01Replay, Record: c01Record, Serial: true}
}
