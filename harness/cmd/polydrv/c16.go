package main

import (
	"encoding/json"
	"fmt"
	"math/rand"
	"os"
	"sort"
	"strings"

	"github.com/TimothyStiles/poly/io/rebase"
)

type rebRec struct {
	Name                   string   `json:"name"`
	Isoschizomers          []string `json:"isoschizomers"`
	RecognitionSequence    string   `json:"recognitionSequence"`
	MethylationSite        string   `json:"methylationSite"`
	MicroOrganism          string   `json:"microorganism"`
	Source                 string   `json:"source"`
	CommercialAvailability []string `json:"commercialAvailability"`
	References             string   `json:"references"`
}

func normRec(r rebRec) rebRec {
	if len(r.Isoschizomers) == 1 && r.Isoschizomers[0] == "" || r.Isoschizomers == nil {
		r.Isoschizomers = []string{}
	}
	if r.CommercialAvailability == nil {
		r.CommercialAvailability = []string{}
	}
	return r
}

func fromEnzyme(e rebase.Enzyme) rebRec {
	return normRec(rebRec{e.Name, e.Isoschizomers, e.RecognitionSequence, e.MethylationSite, e.MicroOrganism, e.Source, e.CommercialAvailability, e.References})
}

func sortedRecs(m map[string]rebase.Enzyme) []rebRec {
	out := []rebRec{}
	for _, e := range m {
		out = append(out, fromEnzyme(e))
	}
	sort.Slice(out, func(i, j int) bool { return out[i].Name < out[j].Name })
	return out
}

func safeRebaseParse(text []byte) (m map[string]rebase.Enzyme, perr string) {
	defer func() {
		if r := recover(); r != nil {
			perr = fmt.Sprint(r)
		}
	}()
	return rebase.Parse(text), ""
}

// the export re-read with the published key names (independently of poly's struct tags)
func reread(exported []byte) ([]rebRec, string) {
	var m map[string]rebRec
	if err := json.Unmarshal(exported, &m); err != nil {
		return nil, err.Error()
	}
	out := []rebRec{}
	for k, r := range m {
		if k != r.Name {
			return nil, "export key " + k + " holds the record named " + r.Name
		}
		out = append(out, normRec(r))
	}
	sort.Slice(out, func(i, j int) bool { return out[i].Name < out[j].Name })
	return out, ""
}

func c16Replay(c json.RawMessage) Verdict {
	var cs struct {
		Lines    []string
		Names    []string
		Expected []rebRec
	}
	if err := json.Unmarshal(c, &cs); err != nil {
		fatal("C16 case: %v", err)
	}
	want := map[string]rebRec{}
	for i, n := range cs.Names {
		want[n] = normRec(cs.Expected[i]) // a later record of the same name replaces an earlier one
	}
	text := []byte(strings.Join(cs.Lines, "\n") + "\n")
	m, perr := safeRebaseParse(text)
	if perr != "" {
		return bad("rebase.Parse panicked: %s", perr)
	}
	// through a file as well
	p := tmpFile(text)
	m2, err := rebase.Read(p)
	os.Remove(p)
	if err != nil {
		return bad("rebase.Read: %v", err)
	}
	for which, mm := range []map[string]rebase.Enzyme{m, m2} {
		if len(mm) != len(want) {
			return bad("(%d) %d entries returned, the listing has %d records", which, len(mm), len(want))
		}
		for n, w := range want {
			g, okk := mm[n]
			if !okk {
				return bad("record %s is missing from the map", n)
			}
			if fmt.Sprintf("%q", fromEnzyme(g)) != fmt.Sprintf("%q", w) {
				return bad("record %s parsed as %q, the listing states %q", n, fromEnzyme(g), w)
			}
		}
	}
	back, e := reread(rebase.Export(m))
	if e != "" {
		return bad("export: %s", e)
	}
	if fmt.Sprintf("%q", back) != fmt.Sprintf("%q", sortedRecs(m)) {
		return bad("the JSON export does not parse back to the same map")
	}
	return ok(len(want) > 0)
}

func c16Record(tier string, seed int64, emit func(interface{})) {
	rng := rand.New(rand.NewSource(seed))
	n, maxRecs := 25, 40
	if tier == "thorough" {
		n, maxRecs = 150, 300
	}
	word := func(m int, alpha string) string {
		b := make([]byte, 1+rng.Intn(m))
		for i := range b {
			b[i] = alpha[rng.Intn(len(alpha))]
		}
		return string(b)
	}
	const letters = "abcdefghijklmnopqrstuvwxyzABCDEFGHIJKLMNOPQRSTUVWXYZ"
	for i := 0; i < n; i++ {
		var lines []string
		for j := 0; j < rng.Intn(12); j++ { // arbitrary header prose (no <1>..<8> tags)
			switch rng.Intn(5) {
			case 4: // prose that MENTIONS the field tags in the middle of a sentence
				lines = append(lines, "    Each record runs from <1> (the enzyme name) to <8> (references); <3> holds the site.")
			case 0:
				lines = append(lines, "")
			case 1:
				lines = append(lines, "    "+word(60, letters+" .,()-=/"))
			case 2:
				lines = append(lines, "<"+strings.ToUpper(word(10, letters))+"> "+word(30, letters+" "))
			default:
				lines = append(lines, "                "+string(letters[26+rng.Intn(26)])+"        "+word(20, letters+" ")+" (1/98)")
			}
		}
		lines = append(lines, "REBASE codes for commercial sources of enzymes", "")
		codes := []byte("BCEIJKMNOQRSVXYabcd")
		rng.Shuffle(len(codes), func(a, b int) { codes[a], codes[b] = codes[b], codes[a] })
		codes = codes[:rng.Intn(16)]
		indent := []string{"                ", "\t", "\t\t", "    ", " \t"}[rng.Intn(5)]
		for ci, cch := range codes {
			if ci > 0 && rng.Intn(5) == 0 { // suppliers laid out in groups: a blank line inside the table
				lines = append(lines, []string{"", "   ", "\t"}[rng.Intn(3)])
			}
			lines = append(lines, indent+string(cch)+[]string{"        ", "        ", "\t", "\t\t", " \t", "  "}[rng.Intn(6)]+[]string{"", "", "", "", string(cch) + " ", string(cch) + " " + string(cch) + " "}[rng.Intn(6)]+word(25, letters+" .,-&")+" ("+fmt.Sprint(1+rng.Intn(12))+"/"+fmt.Sprint(10+rng.Intn(12))+")")
		}
		lines = append(lines, "")
		k := rng.Intn(maxRecs + 1)
		if rng.Intn(3) == 0 {
			k = rng.Intn(6)
		}
		used := map[string]bool{}
		for j := 0; j < k; j++ {
			name := word(8, letters+"0123456789.")
			for used[name] {
				name += "I"
			}
			used[name] = true
			opt := func(s string) string {
				if rng.Intn(4) == 0 {
					return ""
				}
				return s
			}
			var iso []string
			for x := 0; x < rng.Intn(5); x++ {
				iso = append(iso, word(7, letters+"0123456789"))
			}
			longRef := ""
			if i%5 == 1 && j == k/2 { // one very long line in the middle of the listing: beyond any fixed line buffer
				longRef = strings.Repeat("Anon. J. Irreproducible Results 1:1-2 (1999). ", 1600)
			}
			comm := ""
			if len(codes) > 0 {
				for x := 0; x < rng.Intn(16); x++ {
					comm += string(codes[rng.Intn(len(codes))])
				}
			}
			lines = append(lines, "<1>"+name, "<2>"+strings.Join(iso, ","), "<3>"+opt(word(10, "ACGTRYNKMSW^")+"("+fmt.Sprint(rng.Intn(20))+"/"+fmt.Sprint(rng.Intn(20))+")"),
				"<4>"+opt("?("+fmt.Sprint(4+rng.Intn(3))+")"), "<5>"+opt(word(30, letters+" .")), "<6>"+opt(word(20, letters+" .,")), "<7>"+comm,
				"<8>"+longRef+opt(word(80, letters+" .,()-:0123456789")))
			if rng.Intn(3) == 0 { // further reference lines, which are not part of the first reference
				lines = append(lines, word(60, letters+" .,()"))
			}
			lines = append(lines, "")
		}
		text := []byte(strings.Join(lines, "\n") + "\n")
		if i%3 == 2 && len(lines) > 0 && lines[len(lines)-1] == "" { // the listing ends with its last line: no final newline, no blank line
			lines = lines[:len(lines)-1]
			text = []byte(strings.Join(lines, "\n"))
		}
		m, perr := safeRebaseParse(text)
		parsed := []rebRec{}
		exported := []rebRec{}
		if perr == "" {
			parsed = sortedRecs(m)
			var e string
			exported, e = reread(rebase.Export(m))
			if e != "" {
				perr = "export: " + e
				exported = []rebRec{}
			}
		}
		emit(map[string]interface{}{"lines": lines, "parsed": parsed, "exported": exported, "panic": perr})
	}
}

func init() {
	registry["C16"] = &Prop{Replay: c16Replay, Record: c16Record}
}
