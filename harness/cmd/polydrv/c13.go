package main

import (
	"bytes"
	"compress/gzip"
	"encoding/json"
	"fmt"
	"hash/fnv"
	"io"
	"math/rand"
	"os"
	"runtime"
	"strings"
	"time"

	"github.com/TimothyStiles/poly/io/fasta"
)

type fastaRec struct {
	Name string `json:"name"`
	Seq  string `json:"seq"`
}

func toRecs(fs []fasta.Fasta) []fastaRec {
	out := []fastaRec{}
	for _, f := range fs {
		out = append(out, fastaRec{f.Name, f.Sequence})
	}
	return out
}

func sameRecs(a, b []fastaRec) bool {
	if len(a) != len(b) {
		return false
	}
	for i := range a {
		if a[i] != b[i] {
			return false
		}
	}
	return true
}

func gz(b []byte) []byte {
	var buf bytes.Buffer
	w := gzip.NewWriter(&buf)
	w.Write(b)
	w.Close()
	return buf.Bytes()
}

// stalePath returns the process's ONE output path for the file-writing wrappers of a format.  It starts out holding a
// long stale document and is never truncated or removed by the harness in between: a Write must replace whatever an
// earlier, longer Write (or anybody else) left at that path.
var stalePaths = map[string]string{}

func stalePath(kind string) string {
	if p, ok := stalePaths[kind]; ok {
		return p
	}
	p := tmpFile([]byte(strings.Repeat(">stale record left by an earlier, longer document\nACGTACGTACGTACGTACGTACGT\n", 4000)))
	stalePaths[kind] = p
	return p
}

func tmpFile(b []byte) string {
	f, err := os.CreateTemp("", "polyverif-fa-*")
	if err != nil {
		fatal("tmp: %v", err)
	}
	f.Write(b)
	f.Close()
	return f.Name()
}

// stream runs ParseConcurrent with a channel of the given capacity and a consumer that stalls at
// random; it reports the records, how many times the channel was observed closed and any panic.
func stream(r io.Reader, cap int, rng *rand.Rand) (recs []fastaRec, closes int, panicMsg string) {
	return streamWith(func(ch chan<- fasta.Fasta) { fasta.ParseConcurrent(r, ch) }, false, cap, rng)
}

// streamWith: start feeds the channel; async = start returns at once and the stream goes on in a goroutine of the
// library's own (ReadConcurrent, ReadGzConcurrent), so its return says nothing about the end of the stream
func streamWith(start func(chan<- fasta.Fasta), async bool, cap int, rng *rand.Rand) (recs []fastaRec, closes int, panicMsg string) {
	ch := make(chan fasta.Fasta, cap)
	pdone := make(chan string, 1)
	go func() {
		defer func() {
			if x := recover(); x != nil {
				pdone <- fmt.Sprint(x)
				return
			}
			pdone <- ""
		}()
		start(ch)
	}()
	recs = []fastaRec{}
	returned := false
	timeout := time.After(60 * time.Second)
	for {
		if rng != nil && rng.Intn(4) == 0 {
			time.Sleep(time.Duration(rng.Intn(300)) * time.Microsecond)
		}
		select {
		case f, more := <-ch:
			if !more {
				closes = 1
				if returned {
					return
				}
				panicMsg = <-pdone
				// a second close (or a send after close) panics in the producer
				return
			}
			recs = append(recs, fastaRec{f.Name, f.Sequence})
		case msg := <-pdone:
			if msg != "" {
				return recs, closes, msg
			}
			if async {
				returned = true
				pdone = nil
				continue
			}
			// producer returned: drain what is buffered, then expect the close
			for {
				select {
				case f, more := <-ch:
					if !more {
						return recs, 1, ""
					}
					recs = append(recs, fastaRec{f.Name, f.Sequence})
				default:
					return recs, 0, "" // returned without closing the channel
				}
			}
		case <-timeout:
			return recs, 0, "timeout: producer neither closed the channel nor returned within 60 s"
		}
	}
}

// slowReader hands the text out a line (or less) at a time and yields in between, so that the consumer gets
// to run while input is still arriving (back-pressure in the middle of the stream)
type slowReader struct {
	data []byte
	rng  *rand.Rand
}

func (s *slowReader) Read(p []byte) (int, error) {
	if len(s.data) == 0 {
		return 0, io.EOF
	}
	n := bytes.IndexByte(s.data, '\n') + 1
	if n <= 0 || n > len(p) {
		n = len(s.data)
		if n > len(p) {
			n = len(p)
		}
	}
	if s.rng.Intn(3) == 0 && n > 1 {
		n = 1 + s.rng.Intn(n)
	}
	copy(p, s.data[:n])
	s.data = s.data[n:]
	runtime.Gosched()
	if s.rng.Intn(4) == 0 {
		time.Sleep(time.Duration(20+s.rng.Intn(200)) * time.Microsecond)
	}
	return n, nil
}

// readAll runs one reader variant over the text
func readVia(via string, text []byte, cap int, rng *rand.Rand) (recs []fastaRec, closes int, panicMsg string) {
	switch via {
	case "parse":
		return toRecs(fasta.Parse(bytes.NewReader(text))), 1, ""
	case "read":
		p := tmpFile(text)
		defer os.Remove(p)
		return toRecs(fasta.Read(p)), 1, ""
	case "readgz":
		p := tmpFile(gz(text))
		defer os.Remove(p)
		return toRecs(fasta.ReadGz(p)), 1, ""
	case "readconc":
		p := tmpFile(text)
		defer os.Remove(p)
		return streamWith(func(ch chan<- fasta.Fasta) { fasta.ReadConcurrent(p, ch) }, true, cap, rng)
	case "readgzconc":
		p := tmpFile(gz(text))
		defer os.Remove(p)
		return streamWith(func(ch chan<- fasta.Fasta) { fasta.ReadGzConcurrent(p, ch) }, true, cap, rng)
	case "streamgz":
		zr, _ := gzip.NewReader(bytes.NewReader(gz(text)))
		return stream(zr, cap, rng)
	case "streamslow":
		return stream(&slowReader{data: text, rng: rand.New(rand.NewSource(int64(len(text) + cap)))}, cap, rng)
	default:
		return stream(bytes.NewReader(text), cap, rng)
	}
}

var c13Vias = []string{"parse", "read", "readgz", "stream", "streamgz", "streamslow", "streamslow", "readconc", "readgzconc"}

func c13Replay(c json.RawMessage) Verdict {
	var cs struct {
		Lines   []string
		Records []fastaRec
	}
	if err := json.Unmarshal(c, &cs); err != nil {
		fatal("C13 case: %v", err)
	}
	if cs.Records == nil {
		cs.Records = []fastaRec{}
	}
	h := 0
	for _, l := range cs.Lines {
		h = h*31 + len(l) + 7
	}
	rng := rand.New(rand.NewSource(int64(h)))
	// layouts of the same file: LF with/without final newline, CRLF, every sequence line split in two, extra blank/comment lines
	var texts [][]byte
	lf := strings.Join(cs.Lines, "\n")
	texts = append(texts, []byte(lf+"\n"), []byte(lf), []byte(strings.Join(cs.Lines, "\r\n")+"\r\n"))
	var split, padded []string
	for _, l := range cs.Lines {
		if len(l) >= 2 && l[0] != '>' && l[0] != ';' {
			split = append(split, l[:1], l[1:])
		} else {
			split = append(split, l)
		}
		padded = append(padded, l)
		if len(l) > 0 && l[0] != '>' || len(l) == 0 {
			padded = append(padded, "", "; a comment")
		}
	}
	texts = append(texts, []byte(strings.Join(split, "\n")+"\n"), []byte(strings.Join(padded, "\n")+"\n"))
	for ti, text := range texts {
		for _, via := range c13Vias {
			for _, cap := range []int{0, 1, 1000} {
				if !strings.HasPrefix(via, "stream") && cap != 0 {
					continue
				}
				got, closes, pm := readVia(via, text, cap, rng)
				if pm != "" {
					return bad("layout %d via %s cap %d: panic %s", ti, via, cap, pm)
				}
				if closes != 1 {
					return bad("layout %d via %s cap %d: the channel was not closed exactly once", ti, via, cap)
				}
				if !sameRecs(got, cs.Records) {
					return bad("layout %d via %s cap %d: parsed %v, the file states %v (text %q)", ti, via, cap, got, cs.Records, text)
				}
			}
		}
	}
	return ok(len(cs.Records) > 0)
}

func c13Record(tier string, seed int64, emit func(interface{})) {
	rng := rand.New(rand.NewSource(seed))
	n, maxRecs, nBig := 30, 40, 3
	if tier == "thorough" {
		n, maxRecs, nBig = 250, 200, 25
	}
	printable := func(m int) string {
		b := make([]byte, m)
		for i := range b {
			b[i] = byte(33 + rng.Intn(94))
		}
		if rng.Intn(6) == 0 { // printable characters outside ASCII
			return string(b) + []string{"é", "µ", "日本", "Ω", "ß", "–"}[rng.Intn(6)]
		}
		return string(b)
	}
	letters := func(m int) string {
		b := make([]byte, m)
		for i := range b {
			b[i] = "ACGTNacgtnRYKMSWBDHVUEFILPQZX*-"[rng.Intn(31)]
		}
		return string(b)
	}
	// one file beyond any read-ahead buffer (5..7 MiB) through every path-taking entry point, the channel ones
	// included; the sequences are logged as length and FNV-1a digest (TLC compares the records as values)
	{
		var recs []fasta.Fasta
		for j := 0; j < 20+rng.Intn(6); j++ {
			recs = append(recs, fasta.Fasta{Name: printable(1 + rng.Intn(30)), Sequence: letters(250000 + rng.Intn(40000))})
		}
		digest := func(rs []fastaRec) []fastaRec {
			out := []fastaRec{}
			for _, r := range rs {
				h := fnv.New64a()
				h.Write([]byte(r.Seq))
				out = append(out, fastaRec{r.Name, fmt.Sprintf("#%d:%016x", len(r.Seq), h.Sum64())})
			}
			return out
		}
		// ... and one of low complexity only (homopolymer, short tandem repeat): it inflates a thousandfold
		low := []fasta.Fasta{{Name: "polyA", Sequence: strings.Repeat("A", 300000+rng.Intn(50000))},
			{Name: "str", Sequence: strings.Repeat("ACGT", 50000+rng.Intn(9000))}, {Name: "tail", Sequence: "GATTACA"}}
		for _, rs := range [][]fasta.Fasta{recs, low} {
			text := fasta.Build(rs)
			for _, via := range []string{"read", "readconc", "readgz", "readgzconc"} {
				cap := []int{0, 1, 100}[rng.Intn(3)]
				got, closes, pm := readVia(via, text, cap, rng)
				emit(map[string]interface{}{"k": "rt", "via": via, "cap": cap, "written": digest(toRecs(rs)), "got": digest(got), "closes": closes, "panic": pm != "", "msg": pm})
			}
		}
	}
	var pendingRT []func()
	for i := 0; i < n; i++ {
		k := 1 + rng.Intn(maxRecs)
		if i < nBig {
			k = 1 + rng.Intn(3)
		}
		many := i == nBig // one list with more records than any channel the library allocates itself (Parse: 1000 slots)
		if many {
			k = 1100 + rng.Intn(1500)
		}
		var recs []fasta.Fasta
		for j := 0; j < k; j++ {
			m := rng.Intn(400)
			if many {
				m = rng.Intn(12)
			}
			switch {
			case i < nBig && j == 0:
				m = 70000 + rng.Intn(230000) // well beyond any fixed line buffer
			case rng.Intn(10) == 0:
				m = 0
			case rng.Intn(10) == 0:
				m = rng.Intn(20000)
			}
			name := printable(1 + rng.Intn(30))
			if i%7 == 3 && j == 0 { // a header line longer than any small fixed read buffer
				name = printable(4090 + rng.Intn(9000))
			}
			if rng.Intn(3) == 0 {
				name += " " + printable(rng.Intn(20))
			}
			recs = append(recs, fasta.Fasta{Name: name, Sequence: letters(m)})
		}
		written := toRecs(recs)
		via := c13Vias[rng.Intn(len(c13Vias))]
		cap := []int{0, 0, 1, 2, 3, 7, 100, 1000}[rng.Intn(8)]
		// (a) the library's own writer, then a reader
		text := fasta.Build(recs)
		if via == "read" && rng.Intn(2) == 0 {
			p := stalePath("fasta")
			fasta.Write(recs, p)
			text, _ = os.ReadFile(p)
		}
		// the text is read only after the NEXT two record lists have been built: what Build returned is a value of its
		// own, whatever later Build calls do (the big inputs are read at once: holding them costs memory, not insight)
		{
			via, cap, text, written := via, cap, text, written
			observe := func() {
				got, closes, pm := readVia(via, text, cap, rng)
				emit(map[string]interface{}{"k": "rt", "via": via, "cap": cap, "written": written, "got": got, "closes": closes, "panic": pm != "", "msg": pm})
			}
			if len(text) > 1<<20 {
				observe()
			} else {
				pendingRT = append(pendingRT, observe)
			}
			if len(pendingRT) >= 3 || i == n-1 {
				for _, f := range pendingRT {
					f()
				}
				pendingRT = nil
			}
		}
		// (b) the harness's own writer: arbitrary wrapping, blank / comment lines, CRLF
		if i >= nBig || tier == "thorough" || i < 2 {
			var lines []string
			if rng.Intn(3) == 0 {
				lines = append(lines, "; written by an independent FASTA writer", "")
			}
			for _, r := range recs {
				lines = append(lines, ">"+r.Name)
				s := r.Sequence
				w := 1 + rng.Intn(120)
				if rng.Intn(5) == 0 {
					w = 1 + rng.Intn(5)
				}
				if len(s) > 20000 {
					w = 60 + rng.Intn(60000)
					if rng.Intn(2) == 0 { // lines of exactly / next to 2^16 letters (and twice that)
						w = []int{65535, 65536, 65537, 131071, 65534}[rng.Intn(5)]
					}
					if i < 2 {
						w = []int{65535, 131071}[i]
					}
				}
				for len(s) > 0 {
					c := w
					if c > len(s) {
						c = len(s)
					}
					piece := s[:c]
					lines = append(lines, piece)
					s = s[c:]
					if rng.Intn(15) == 0 {
						lines = append(lines, "")
					}
					if rng.Intn(25) == 0 {
						lines = append(lines, ";"+printable(rng.Intn(10)))
					}
					if i%7 == 4 && rng.Intn(6) == 0 { // a comment line longer than any small fixed read buffer
						lines = append(lines, ";"+printable(4090+rng.Intn(9000)))
					}
				}
			}
			// a sequence line must not look like a header or a comment
			okLayout := true
			for _, l := range lines {
				if len(l) > 200000 {
					okLayout = false
				}
			}
			if okLayout && len(lines) <= 2000 {
				eol := "\n"
				if rng.Intn(3) == 0 || (i < nBig && i != 2) {
					eol = "\r\n"
				}
				text := strings.Join(lines, eol)
				if rng.Intn(2) == 0 {
					text += eol
				}
				via := c13Vias[rng.Intn(len(c13Vias))]
				got, closes, pm := readVia(via, []byte(text), cap, rng)
				emit(map[string]interface{}{"k": "layout", "via": via, "cap": cap, "lines": lines, "got": got, "closes": closes, "panic": pm != "", "msg": pm})
			}
		}
	}
}

func init() {
	registry["C13"] = &Prop{Replay: c13Replay, Record: c13Record}
}
