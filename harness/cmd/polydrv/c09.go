package main

import (
	"bufio"
	"encoding/json"
	"fmt"
	"math/rand"
	"os"
	"os/exec"
	"runtime"
	"sort"
	"strconv"
	"strings"
	"sync"
	"syscall"
	"time"

	"github.com/TimothyStiles/poly/clone"
)

// ---------------------------------------------------------------- abstract pool -> DNA parts
type absFrag struct {
	F int `json:"f"`
	R int `json:"r"`
	B int `json:"b"`
}
type ringStep struct {
	I int  `json:"i"`
	D bool `json:"d"`
}
type c09Case struct {
	M         int          `json:"m"`
	Pool      []absFrag    `json:"pool"`
	Rings     [][]ringStep `json:"rings"`
	Molecules int          `json:"molecules"`
	Diverges  bool         `json:"diverges"`
}

var baseOverhangs = []string{"GGAG", "TACT", "AATG", "AGGT", "GCTT", "CGCT", "ATCC", "CAGA"}

// Overhang alphabets for the junction symbols 1..8: in every table the eight words are distinct, none is its own
// reverse complement and none the reverse complement of another - any of them is a valid junction design.
// Besides the standard set: the windows of one repeating unit in ring order (a later overhang occurs, shifted,
// inside two earlier ones written side by side), words that share all but the last letter, and words that are each
// other's mirror image.
var ovTables = [][]string{
	baseOverhangs,
	{"AACT", "GAAC", "TGAA", "CTGA", "ACTG", "GGAG", "TACT", "AATG"},
	{"AAAC", "AAAG", "AAAT", "AACA", "AACC", "AACG", "AAGA", "AAGC"},
	{"AACT", "TCAA", "AGGT", "TGGA", "GCCA", "ACCG", "CATT", "TTAC"},
}
var curOverhangs = baseOverhangs // set by concretise (one pool at a time per process)

func init() {
	for _, t := range ovTables {
		seen := map[string]bool{}
		for _, w := range t {
			if w == rcDNA(w) || seen[w] || seen[rcDNA(w)] {
				panic("polydrv: invalid overhang table")
			}
			seen[w] = true
		}
	}
}

func overhangDNA(o, m int) string {
	if o <= m {
		return curOverhangs[o-1]
	}
	return rcDNA(curOverhangs[o-m-1])
}

var c09Enzymes = []string{"BsaI", "BbsI", "BtgZI"}

func siteFree(s string) bool {
	u := strings.ToUpper(s)
	for _, e := range builtinEnzymes {
		if strings.Contains(u, e.Site) || strings.Contains(u, e.Rsite) {
			return false
		}
	}
	return true
}
func randDNA(rng *rand.Rand, n int) string {
	for {
		b := make([]byte, n)
		for i := range b {
			b[i] = "ACGT"[rng.Intn(4)]
		}
		if siteFree(string(b)) {
			return string(b)
		}
	}
}

type concretePool struct {
	enzyme string
	bodies []string // per abstract fragment (as supplied orientation d = true)
	parts  []clone.Part
	m      int
	pool   []absFrag
}

func concretise(cs c09Case, rng *rand.Rand, table int) concretePool {
	cp := concretePool{enzyme: c09Enzymes[rng.Intn(3)], m: cs.M, pool: cs.Pool}
	e := builtinEnzymes[cp.enzyme]
	curOverhangs = ovTables[table%len(ovTables)] // consecutive pools take the alphabets in turn
	for _, f := range cs.Pool {
		for {
			body := randDNA(rng, 12+rng.Intn(40))
			skipF, skipR := randDNA(rng, e.Skip), randDNA(rng, e.Skip)
			core := e.Site + skipF + overhangDNA(f.F, cs.M) + body + overhangDNA(f.R, cs.M) + skipR + e.Rsite
			part := randDNA(rng, 3+rng.Intn(15)) + core + randDNA(rng, 3+rng.Intn(15))
			circ := rng.Intn(3) == 0
			stale := 0
			if !circ && rng.Intn(3) == 0 {
				// a linear carrier (an amplicon) with stale, outward-facing sites at its ends: a backward site
				// right at the start and / or a forward site right at the end cut nothing out
				if rng.Intn(3) > 0 {
					part = randDNA(rng, rng.Intn(8)) + e.Rsite + part
					stale++
				}
				if rng.Intn(3) > 0 {
					part = part + e.Site + randDNA(rng, rng.Intn(8))
					stale++
				}
			}
			if countSites(part, e, circ) != 2+stale || countSites(part, builtinEnzymes["BsaI"], circ)+countSites(part, builtinEnzymes["BbsI"], circ)+countSites(part, builtinEnzymes["BtgZI"], circ) != 2+stale {
				continue
			}
			// NB: the orientation in which a fragment is supplied is part of the abstract pool (TLC enumerates
			// both orientations of every fragment as different pools), so the part is not flipped here.
			if circ { // circular carrier at a random rotation
				k := rng.Intn(len(part))
				part = part[k:] + part[:k]
			}
			if rng.Intn(4) == 0 {
				part = strings.ToLower(part)
			}
			cp.bodies = append(cp.bodies, body)
			cp.parts = append(cp.parts, clone.Part{Sequence: part, Circular: circ})
			break
		}
	}
	rng.Shuffle(len(cp.parts), func(i, j int) { cp.parts[i], cp.parts[j] = cp.parts[j], cp.parts[i] })
	return cp
}

// canonical spelling of a circular double-stranded molecule (independent of seqhash)
func canonCircular(s string) string {
	s = strings.ToUpper(s)
	best := ""
	for _, t := range []string{s, rcDNA(s)} {
		d := t + t
		for k := 0; k < len(t); k++ {
			if r := d[k : k+len(t)]; best == "" || r < best {
				best = r
			}
		}
	}
	return best
}

func (cp concretePool) ringDNA(r []ringStep) string {
	var b strings.Builder
	for _, st := range r {
		f := cp.pool[st.I-1]
		if st.D {
			b.WriteString(overhangDNA(f.F, cp.m) + cp.bodies[st.I-1])
		} else {
			b.WriteString(rcDNA(overhangDNA(f.R, cp.m)) + rcDNA(cp.bodies[st.I-1]))
		}
	}
	return b.String()
}

// ---------------------------------------------------------------- child: run pools on the real code
type c09Event struct {
	Seq int    `json:"seq"`
	Ev  string `json:"ev"`
	A   string `json:"a"`
	B   string `json:"b"`
}
type c09Outcome struct {
	Idx     int         `json:"idx"`
	Begin   bool        `json:"begin,omitempty"`
	Outcome string      `json:"outcome,omitempty"` // ok | wrong | noreturn
	Detail  string      `json:"detail,omitempty"`
	Runs    int         `json:"runs,omitempty"`
	Events  []c09Event  `json:"events,omitempty"`
	Frags   [][3]string `json:"frags,omitempty"` // digested pool of the run whose events are logged
	Result  []string    `json:"result,omitempty"`
}

func c09Child(args []string) {
	in, out := args[0], args[1]
	start, _ := strconv.Atoi(args[2])
	reps, _ := strconv.Atoi(args[3])
	seed, _ := strconv.ParseInt(args[4], 10, 64)
	deadline, _ := strconv.Atoi(args[5]) // ms per run
	if os.Getenv("POLYDRV_NO_RLIMIT") == "" {
		lim := syscall.Rlimit{Cur: 6 << 30, Max: 6 << 30}
		_ = syscall.Setrlimit(syscall.RLIMIT_AS, &lim)
	}
	f, err := os.Open(in)
	if err != nil {
		fatal("child open: %v", err)
	}
	var cases []c09Case
	sc := bufio.NewScanner(f)
	sc.Buffer(make([]byte, 1<<20), 1<<28)
	for sc.Scan() {
		var c c09Case
		if err := json.Unmarshal(sc.Bytes(), &c); err != nil {
			fatal("child case: %v", err)
		}
		cases = append(cases, c)
	}
	of, err := os.OpenFile(out, os.O_APPEND|os.O_CREATE|os.O_WRONLY, 0644)
	if err != nil {
		fatal("child out: %v", err)
	}
	write := func(o c09Outcome) {
		b, _ := json.Marshal(o)
		of.Write(append(b, '\n'))
	}
	for idx := start; idx < len(cases); idx++ {
		write(c09Outcome{Idx: idx, Begin: true})
		write(c09RunPool(cases[idx], idx, reps, seed, time.Duration(deadline)*time.Millisecond, func(o c09Outcome) {
			write(o)
			of.Sync()
			os.Exit(7)
		}))
	}
	of.Close()
}

// c09RunPool runs GoldenGate on one concretised pool at GOMAXPROCS 1, 2, 16, `reps` times each,
// with seeded yields at the synchronisation hooks.  die is called (and must not return) when a
// run does not come back within the deadline.
func c09RunPool(cs c09Case, idx, reps int, seed int64, deadline time.Duration, die func(c09Outcome)) c09Outcome {
	rng := rand.New(rand.NewSource(seed*1000003 + int64(idx)))
	cp := concretise(cs, rng, idx+int(seed%1000))
	want := map[string]bool{}
	for _, r := range cs.Rings {
		want[canonCircular(cp.ringDNA(r))] = true
	}
	out := c09Outcome{Idx: idx, Outcome: "ok"}
	var mu sync.Mutex
	var events []c09Event
	logging := false
	yseed := uint64(seed)*2654435761 + uint64(idx)
	clone.VerifHook = func(ev, a, b string) {
		mu.Lock()
		yseed = yseed*6364136223846793005 + 1442695040888963407
		r := yseed >> 33
		if logging {
			events = append(events, c09Event{Seq: len(events) + 1, Ev: ev, A: a, B: b})
		}
		mu.Unlock()
		switch {
		case r%3 == 0:
			runtime.Gosched()
		case r%29 == 0:
			time.Sleep(20 * time.Microsecond)
		}
	}
	defer func() { clone.VerifHook = nil }()
	for _, gmp := range []int{1, 2, 16} {
		runtime.GOMAXPROCS(gmp)
		for rep := 0; rep < reps; rep++ {
			logging = gmp == 2 && rep == 0
			done := make(chan []clone.Part, 1)
			errc := make(chan error, 1)
			go func() {
				r, err := clone.GoldenGate(cp.parts, cp.enzyme)
				if err != nil {
					errc <- err
					return
				}
				done <- r
			}()
			var res []clone.Part
			select {
			case res = <-done:
			case err := <-errc:
				out.Outcome, out.Detail = "wrong", "GoldenGate error: "+err.Error()
				return out
			case <-time.After(deadline):
				out.Outcome = "noreturn"
				if os.Getenv("C09_DEBUG") != "" {
					buf := make([]byte, 1<<16)
					os.Stderr.Write(buf[:runtime.Stack(buf, true)])
				}
				out.Detail = fmt.Sprintf("GoldenGate did not return within %v at GOMAXPROCS %d (goroutines: %d)", deadline, gmp, runtime.NumGoroutine())
				die(out)
			}
			out.Runs++
			got := map[string]int{}
			for _, p := range res {
				if !p.Circular {
					out.Outcome, out.Detail = "wrong", "a construct is not marked circular"
					return out
				}
				got[canonCircular(p.Sequence)]++
			}
			for k, n := range got {
				if n > 1 {
					out.Outcome, out.Detail = "wrong", fmt.Sprintf("GOMAXPROCS %d run %d: the same molecule is returned %d times (%d bases)", gmp, rep, n, len(k))
					return out
				}
				if !want[k] {
					out.Outcome, out.Detail = "wrong", fmt.Sprintf("GOMAXPROCS %d run %d: spurious construct %s", gmp, rep, k)
					return out
				}
			}
			for k := range want {
				if got[k] == 0 {
					out.Outcome, out.Detail = "wrong", fmt.Sprintf("GOMAXPROCS %d run %d: a ring of the pool is missing (%d of %d constructs returned): %s", gmp, rep, len(got), len(want), k)
					return out
				}
			}
			if logging {
				mu.Lock()
				out.Events = append([]c09Event(nil), events...)
				mu.Unlock()
				for _, p := range res {
					out.Result = append(out.Result, p.Sequence)
				}
				for _, part := range cp.parts {
					fr, _ := clone.CutWithEnzymeByName(part, true, cp.enzyme)
					for _, f := range fr {
						out.Frags = append(out.Frags, [3]string{f.ForwardOverhang, f.Sequence, f.ReverseOverhang})
					}
				}
			}
		}
	}
	runtime.GOMAXPROCS(runtime.NumCPU())
	return out
}

// ---------------------------------------------------------------- parent: shard cases over child processes
var c09Results = map[string]c09Outcome{}

func rssMB(pid int) int {
	b, err := os.ReadFile(fmt.Sprintf("/proc/%d/statm", pid))
	if err != nil {
		return 0
	}
	f := strings.Fields(string(b))
	if len(f) < 2 {
		return 0
	}
	pages, _ := strconv.Atoi(f[1])
	return pages * 4 / 1024
}

// runShard drives one child process over a shard of cases, restarting it after every pool that kills it
func runShard(lines []string, dir string, shard int, reps int, seed int64, deadlineMs int) []c09Outcome {
	in := fmt.Sprintf("%s/c09_shard%d.in", dir, shard)
	out := fmt.Sprintf("%s/c09_shard%d.out", dir, shard)
	os.WriteFile(in, []byte(strings.Join(lines, "\n")+"\n"), 0644)
	os.Remove(out)
	results := make([]c09Outcome, len(lines))
	filled := make([]bool, len(lines))
	exe := os.Getenv("POLYDRV_CHILD")
	if exe == "" {
		exe, _ = os.Executable()
	}
	start := 0
	for start < len(lines) {
		cmd := exec.Command(exe, "child", "C09", in, out, strconv.Itoa(start), strconv.Itoa(reps), strconv.FormatInt(seed, 10), strconv.Itoa(deadlineMs))
		var stderr strings.Builder
		cmd.Stderr = &stderr
		cmd.Env = append(os.Environ(), "GORACE=exitcode=66 halt_on_error=1")
		if err := cmd.Start(); err != nil {
			fatal("start child: %v", err)
		}
		exited := make(chan error, 1)
		go func() { exited <- cmd.Wait() }()
		killed := ""
	wait:
		for {
			select {
			case <-exited:
				break wait
			case <-time.After(15 * time.Millisecond):
				if m := rssMB(cmd.Process.Pid); m > 5000 {
					killed = fmt.Sprintf("resident memory reached %d MB (unbounded goroutine spawning)", m)
					cmd.Process.Kill()
					<-exited
					break wait
				}
			}
		}
		// collect what the child wrote
		last := -1
		if f, err := os.Open(out); err == nil {
			sc := bufio.NewScanner(f)
			sc.Buffer(make([]byte, 1<<20), 1<<28)
			for sc.Scan() {
				var o c09Outcome
				if json.Unmarshal(sc.Bytes(), &o) != nil {
					continue
				}
				if o.Begin {
					if o.Idx > last {
						last = o.Idx
					}
					continue
				}
				results[o.Idx], filled[o.Idx] = o, true
			}
			f.Close()
		}
		if last < start && !filled[start] {
			// the child died before it began anything: machinery problem
			fatal("C09 child died before starting case %d: %s", start, stderr.String())
		}
		if last >= 0 && !filled[last] {
			det := killed
			if det == "" {
				det = "child process died: " + lastLines(stderr.String(), 3)
			}
			o := c09Outcome{Idx: last, Outcome: "noreturn", Detail: det}
			if strings.Contains(stderr.String(), "DATA RACE") {
				o.Outcome, o.Detail = "race", "race detector: "+lastLines(stderr.String(), 12)
			}
			results[last], filled[last] = o, true
		}
		start = last + 1
		for start < len(lines) && filled[start] {
			start++
		}
		if last < 0 {
			break
		}
	}
	os.Remove(in)
	os.Remove(out)
	return results
}

func lastLines(s string, n int) string {
	l := strings.Split(strings.TrimSpace(s), "\n")
	if len(l) > n {
		l = l[:n]
	}
	return strings.Join(l, " | ")
}

func c09Prepare(path string) {
	f, err := os.Open(path)
	if err != nil {
		fatal("open: %v", err)
	}
	var lines []string
	sc := bufio.NewScanner(f)
	sc.Buffer(make([]byte, 1<<20), 1<<28)
	for sc.Scan() {
		c, err := unwrap(sc.Bytes())
		if err != nil {
			fatal("C09 line: %v", err)
		}
		lines = append(lines, string(c))
	}
	f.Close()
	// run diverging pools last and apart (each kills its child)
	sort.SliceStable(lines, func(i, j int) bool {
		return !strings.Contains(lines[i], `"diverges":true`) && strings.Contains(lines[j], `"diverges":true`)
	})
	reps, _ := strconv.Atoi(os.Getenv("C09_REPS"))
	if reps == 0 {
		reps = 2
	}
	deadline, _ := strconv.Atoi(os.Getenv("C09_DEADLINE_MS"))
	if deadline == 0 {
		deadline = 4000
	}
	seed, _ := strconv.ParseInt(os.Getenv("VERIF_SEED"), 10, 64)
	dir, _ := os.MkdirTemp(os.Getenv("C09_TMP"), "c09-")
	defer os.RemoveAll(dir)
	shards := 8
	if len(lines) < shards {
		shards = 1
	}
	var wg sync.WaitGroup
	var mu sync.Mutex
	for s := 0; s < shards; s++ {
		var part []string
		for i := s; i < len(lines); i += shards {
			part = append(part, lines[i])
		}
		wg.Add(1)
		go func(s int, part []string) {
			defer wg.Done()
			res := runShard(part, dir, s, reps, seed, deadline)
			mu.Lock()
			for i, r := range res {
				c09Results[part[i]] = r
			}
			mu.Unlock()
		}(s, part)
	}
	wg.Wait()
	// keep the sync-event logs of the runs for the I->S trace stage
	if ev := os.Getenv("C09_EVENTS_OUT"); ev != "" {
		w, _ := os.Create(ev)
		bw := bufio.NewWriter(w)
		n := 0
		for _, l := range lines {
			r := c09Results[l]
			if r.Outcome == "ok" && len(r.Events) > 0 && n < 250 {
				n++
				b, _ := json.Marshal(map[string]interface{}{"events": r.Events, "frags": r.Frags, "result": r.Result})
				bw.Write(b)
				bw.WriteByte('\n')
			}
		}
		bw.Flush()
		w.Close()
	}
}

func c09Replay(c json.RawMessage) Verdict {
	r, okk := c09Results[string(c)]
	if !okk {
		fatal("C09: no result for case %.200s", c)
	}
	var cs c09Case
	_ = json.Unmarshal(c, &cs)
	switch r.Outcome {
	case "ok":
		return ok(len(cs.Rings) > 0)
	case "noreturn":
		if cs.Diverges {
			return dev("C09-unbounded-spawn", "%s", r.Detail)
		}
		return bad("GoldenGate did not return although the pool is finite: %s", r.Detail)
	case "race":
		return bad("%s", r.Detail)
	default:
		return bad("%s", r.Detail)
	}
}

func init() {
	registry["C09"] = &Prop{Replay: c09Replay, Prepare: c09Prepare, Record: c09Record}
	children["C09"] = c09Child
}

// c09Record: designed assemblies (the property's generator domain): 1..6 junctions, 1..3 alternatives per
// slot, dead-end decoys; they are written as abstract pools + expected rings computed by the HARNESS and are
// run like replay cases; the events of the runs are what C09_Trace validates (see props.py).
func c09Record(tier string, seed int64, emit func(interface{})) {
	fatal("C09 has no direct recorder: sync events are collected during replay (C09_EVENTS_OUT)")
}
