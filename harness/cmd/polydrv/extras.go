package main

import (
	"encoding/json"
	"math/rand"
	"os"

	"github.com/TimothyStiles/poly"
	polyrandom "github.com/TimothyStiles/poly/random"
	"github.com/TimothyStiles/poly/transform/codon"
)

// extrasRecord: calls beyond the listed properties (see spec/Extras_Trace.tla)
func extrasRecord(tier string, seed int64, emit func(interface{})) {
	rng := rand.New(rand.NewSource(seed))
	n := 60
	if tier == "thorough" {
		n = 600
	}
	for i := 0; i < n; i++ {
		// GetCodingRegions
		plen := 1 + rng.Intn(300)
		pb := make([]byte, plen)
		for j := range pb {
			pb[j] = "ACGT"[rng.Intn(4)]
		}
		seq := poly.Sequence{Sequence: string(pb)}
		feats := []interface{}{}
		for j := 0; j < rng.Intn(7); j++ {
			g := genAst(rng, plen, 1+rng.Intn(3))
			typ := []string{"CDS", "CDS", "gene", "cds", "misc_feature"}[rng.Intn(5)]
			f := poly.Feature{Type: typ, SequenceLocation: g.loc()}
			seq.AddFeature(&f)
			feats = append(feats, map[string]interface{}{"type": typ, "loc": absLoc(g)})
		}
		emit(map[string]interface{}{"k": "coding", "parent": string(pb), "feats": feats, "got": codon.GetCodingRegions(seq)})
		// random.ProteinSequence
		ln := rng.Intn(60)
		sd := rng.Int63()
		p, err := polyrandom.ProteinSequence(ln, sd)
		again, _ := polyrandom.ProteinSequence(ln, sd)
		emit(map[string]interface{}{"k": "randprot", "len": ln, "seed": int(sd % 1000000), "p": p, "err": err != nil, "again": again})
		// codon table JSON files
		id := tableIds[rng.Intn(len(tableIds))]
		t := roundtrip(codon.GetCodonTable(id).OptimizeTable(randCoding(rng, rng.Intn(900), rng.Intn(2) == 0)), false)
		w, _, _ := projectTable(t)
		path := tmpFile(nil)
		codon.WriteCodonJSON(t, path)
		text, _ := os.ReadFile(path)
		back := codon.ReadCodonJSON(path)
		os.Remove(path)
		var real interface{}
		_ = json.Unmarshal(text, &real)
		bb, _ := json.Marshal(back)
		var backj interface{}
		_ = json.Unmarshal(bb, &backj)
		emit(map[string]interface{}{"k": "codonjson", "id": id, "w": toSparse(w), "json": real, "back": backj})
	}
}

func init() {
	registry["EXTRAS"] = &Prop{Record: extrasRecord}
}
