package main

import (
	"bytes"
	"encoding/json"
	"fmt"
	"math/rand"
	"os"
	"os/exec"
	"sort"
	"strings"

	"github.com/TimothyStiles/poly/io/genbank"
	"github.com/TimothyStiles/poly/io/gff"
	"github.com/TimothyStiles/poly/io/polyjson"
	"github.com/TimothyStiles/poly/seqhash"

	"github.com/TimothyStiles/poly"
	polyrandom "github.com/TimothyStiles/poly/random"
	"github.com/TimothyStiles/poly/transform/codon"
	"github.com/TimothyStiles/poly/transform/variants"
)

// extrasRecord: calls beyond the listed properties (see spec/Extras_Trace.tla)
func extrasRecord(tier string, seed int64, emit func(interface{})) {
	rng := rand.New(rand.NewSource(seed))
	n := 60
	if tier == "thorough" {
		n = 600
	}
	for i := 0; i < n; i++ {
		// GetCodingRegions
		plen := 1 + rng.Intn(300)
		pb := make([]byte, plen)
		for j := range pb {
			pb[j] = "ACGT"[rng.Intn(4)]
		}
		seq := poly.Sequence{Sequence: string(pb)}
		feats := []interface{}{}
		for j := 0; j < rng.Intn(7); j++ {
			g := genAst(rng, plen, 1+rng.Intn(3))
			typ := []string{"CDS", "CDS", "gene", "cds", "misc_feature"}[rng.Intn(5)]
			f := poly.Feature{Type: typ, SequenceLocation: g.loc()}
			seq.AddFeature(&f)
			feats = append(feats, map[string]interface{}{"type": typ, "loc": absLoc(g)})
		}
		emit(map[string]interface{}{"k": "coding", "parent": string(pb), "feats": feats, "got": codon.GetCodingRegions(seq)})
		// AllVariantsIUPAC outside its domain: one letter that is no IUPAC code, among concrete bases or codes
		{
			alpha := "ACGT"
			if rng.Intn(2) == 0 {
				alpha = "ACGTRYSWKMBDHVN"
			}
			b := make([]byte, 1+rng.Intn(6))
			for j := range b {
				b[j] = alpha[rng.Intn(len(alpha))]
			}
			b[rng.Intn(len(b))] = "XZUEFIJLOPQ!1 *-xzu"[rng.Intn(19)]
			if rng.Intn(3) == 0 {
				b = []byte(strings.ToLower(string(b)))
			}
			_, verr := variants.AllVariantsIUPAC(string(b))
			emit(map[string]interface{}{"k": "variantserr", "s": string(b), "err": verr != nil})
		}
		// random.ProteinSequence
		ln := rng.Intn(60)
		sd := rng.Int63()
		p, err := polyrandom.ProteinSequence(ln, sd)
		again, _ := polyrandom.ProteinSequence(ln, sd)
		emit(map[string]interface{}{"k": "randprot", "len": ln, "seed": int(sd % 1000000), "p": p, "err": err != nil, "again": again})
		// codon table JSON files
		id := tableIds[rng.Intn(len(tableIds))]
		t := roundtrip(codon.GetCodonTable(id).OptimizeTable(randCoding(rng, rng.Intn(900), rng.Intn(2) == 0)), false)
		w, _, _ := projectTable(t)
		path := stalePath("codonjson")
		codon.WriteCodonJSON(t, path)
		text, _ := os.ReadFile(path)
		back := codon.ReadCodonJSON(path)
		var real interface{}
		_ = json.Unmarshal(text, &real)
		bb, _ := json.Marshal(back)
		var backj interface{}
		_ = json.Unmarshal(bb, &backj)
		emit(map[string]interface{}{"k": "codonjson", "id": id, "w": toSparse(w), "json": real, "back": backj})
	}
	cliEvents(rng, n/3, emit)
}

// ---- the command line (cmd/poly), see spec/Cli.tla ----
func cliEvents(rng *rand.Rand, n int, emit func(interface{})) {
	cli := os.Getenv("POLY_CLI")
	if cli == "" {
		return
	}
	run := func(dir string, stdin []byte, args ...string) []byte {
		cmd := exec.Command(cli, args...)
		cmd.Dir = dir
		if stdin != nil {
			cmd.Stdin = bytes.NewReader(stdin)
		}
		out, _ := cmd.Output()
		return out
	}
	for i := 0; i < n; i++ {
		dir, _ := os.MkdirTemp("", "polycli-")
		// input files of several kinds; some stems are shared so that two inputs race for one output
		stems := []string{"a", "b", "sample.v2", "c"}
		type inp struct {
			path string
			seq  poly.Sequence
		}
		var inputs []inp
		content := map[string][]byte{}
		for j := 0; j < 1+rng.Intn(4); j++ {
			ext := []string{"gbk", "gb", "gff", "json"}[rng.Intn(4)]
			path := stems[rng.Intn(len(stems))] + "." + ext
			if _, dup := content[path]; dup {
				continue
			}
			lines, _ := genGbRecord(rng, 400, 5)
			gb := []byte(strings.Join(lines, "\n") + "\n")
			var text []byte
			var seq poly.Sequence
			switch ext {
			case "gbk", "gb":
				text, seq = gb, genbank.Parse(gb)
			case "gff":
				g := genbank.Parse(gb)
				g.Meta.Name, g.Meta.RegionStart, g.Meta.RegionEnd = "r"+fmt.Sprint(j), 1, len(g.Sequence)
				g.Features = nil
				text = gff.Build(g)
				seq = gff.Parse(text)
			default:
				text, _ = json.MarshalIndent(genbank.Parse(gb), "", " ")
				seq = polyjson.Parse(text)
			}
			os.WriteFile(dir+"/"+path, text, 0644)
			content[path] = text
			inputs = append(inputs, inp{path, seq})
		}
		other := "notes.txt"
		os.WriteFile(dir+"/"+other, []byte("untouched"), 0644)
		content[other] = []byte("untouched")
		// poly hash on the same inputs
		var ins0 []string
		for _, in := range inputs {
			ins0 = append(ins0, in.path)
		}
		hargs := append([]string{"hash"}, ins0...)
		out := run(dir, nil, hargs...)
		lines := [][]string{}
		for _, l := range strings.Split(string(out), "\n") {
			if l == "" {
				continue
			}
			parts := strings.SplitN(l, "  ", 2)
			if len(parts) == 2 {
				lines = append(lines, parts)
			} else {
				lines = append(lines, []string{l, ""})
			}
		}
		lib := []string{}
		for _, in := range inputs {
			h, _ := seqhash.Hash(in.seq.Sequence, in.seq.Meta.Locus.MoleculeType, in.seq.Meta.Locus.Circular, true)
			lib = append(lib, h)
		}
		emit(map[string]interface{}{"k": "clihash", "inputs": nz(ins0), "lines": lines, "libhash": lib})
		o := []string{"json", "gff", "gbk", "json", "out.json", "out.gbk"}[rng.Intn(6)]
		args := []string{"c", "-o", o}
		var ins []string
		for _, in := range inputs {
			args = append(args, in.path)
			ins = append(ins, in.path)
		}
		run(dir, nil, args...)
		// what does every path hold afterwards?
		conv := func(s poly.Sequence) []byte {
			ext := o
			if k := strings.LastIndex(o, "."); k >= 0 {
				ext = o[k+1:]
			}
			switch ext {
			case "json":
				b, _ := json.MarshalIndent(s, "", " ")
				return b
			case "gff":
				return gff.Build(s)
			default:
				return genbank.Build(s)
			}
		}
		pathSet := map[string]bool{other: true, "out.json": true, "out.gbk": true}
		for _, in := range inputs {
			pathSet[in.path] = true
			st := in.path[:strings.LastIndex(in.path, ".")]
			for _, e := range []string{"json", "gff", "gbk", "gb"} {
				pathSet[st+"."+e] = true
			}
		}
		var paths, after []string
		for q := range pathSet {
			paths = append(paths, q)
		}
		sort.Strings(paths)
		for _, q := range paths {
			b, err := os.ReadFile(dir + "/" + q)
			before, had := content[q]
			switch {
			case err != nil:
				after = append(after, "absent")
			case had && bytes.Equal(b, before):
				after = append(after, "unchanged")
			default:
				from := "other"
				for _, in := range inputs {
					if bytes.Equal(b, conv(in.seq)) {
						from = in.path
						// prefer the input whose output path this is
						if st := in.path[:strings.LastIndex(in.path, ".")]; strings.HasPrefix(q, st+".") {
							break
						}
					}
				}
				after = append(after, from)
			}
		}
		emit(map[string]interface{}{"k": "cliconvert", "o": o, "inputs": nz(ins), "paths": paths, "after": after})
		// pipe mode
		if len(inputs) > 0 && strings.HasSuffix(inputs[0].path, ".gbk") {
			got := run(dir, content[inputs[0].path], "c", "-i", "gbk", "-o", "json")
			want, _ := json.MarshalIndent(inputs[0].seq, "", " ")
			emit(map[string]interface{}{"k": "clipipe", "what": "convert -i gbk -o json", "same": bytes.Equal(got, want)})
		}
		os.RemoveAll(dir)
	}
}

func init() {
	registry["EXTRAS"] = &Prop{Record: extrasRecord}
}
