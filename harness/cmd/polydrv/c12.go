package main

import (
	"bytes"
	"encoding/json"
	"math/rand"
	"strings"
	"sync"

	"github.com/TimothyStiles/poly/seqhash"
)

// order-preserving maps from letter ordinals to bytes; the second exercises
// bytes >= 0x80 and NUL ("all byte strings").
// The third and fourth are made of UTF-8 lead and continuation bytes (strings that are, contain or split multi-byte
// characters): a byte string is not text.
var c12Alphabets = [][]byte{[]byte("acgt"), {0x00, 0x7f, 0x80, 0xff}, {0xa9, 0xc2, 0xc3, 0xe6}, {0x41, 0x80, 0xc2, 0xf0},
	[]byte("AGTU"), []byte("TUtu")} // the last two: letters that other functions of the library treat as one (T / U, upper / lower case)

func ordsToString(o []int, alpha []byte) string {
	b := make([]byte, len(o))
	for i, x := range o {
		b[i] = alpha[x]
	}
	return string(b)
}

func init() {
	registry["C12"] = &Prop{
		Replay: func(c json.RawMessage) Verdict {
			var cs struct {
				I []int `json:"i"`
				O []int `json:"o"`
			}
			if err := json.Unmarshal(c, &cs); err != nil {
				fatal("C12 case: %v", err)
			}
			for _, a := range c12Alphabets {
				in, want := ordsToString(cs.I, a), ordsToString(cs.O, a)
				got := seqhash.RotateSequence(in)
				if got != want {
					return bad("RotateSequence(%q) = %q, specification's least rotation is %q", in, got, want)
				}
			}
			return ok(len(cs.I) >= 2)
		},
		Record: c12Record,
	}
}

func fib(n int, a, b string) string {
	x, y := a, b
	for len(y) < n {
		x, y = y, y+x
	}
	return y[:n]
}

func c12Record(tier string, seed int64, emit func(interface{})) {
	rng := rand.New(rand.NewSource(seed))
	nFull, maxFull, nBig, maxBig := 150, 400, 12, 100000
	if tier == "thorough" {
		nFull, maxFull, nBig, maxBig = 1500, 2000, 60, 1000000
	}
	g := 0
	gen := func(maxLen int) string {
		k := 1 + rng.Intn(4)
		letters := "abcd"[:k]
		if rng.Intn(3) == 0 {
			letters = "abcd"[4-k:]
		}
		rnd := func(n int) string {
			b := make([]byte, n)
			for i := range b {
				b[i] = letters[rng.Intn(len(letters))]
			}
			return string(b)
		}
		n := 1 + rng.Intn(maxLen)
		if rng.Intn(3) == 0 {
			n = 1 + rng.Intn(40)
		}
		first, last := letters[:1], letters[len(letters)-1:]
		switch rng.Intn(6) {
		case 0: // random
			return rnd(n)
		case 1: // power
			u := rnd(1 + rng.Intn(8))
			return strings.Repeat(u, n/len(u)+1)[:n]
		case 2: // power with one letter changed
			u := rnd(1 + rng.Intn(8))
			b := []byte(strings.Repeat(u, n/len(u)+1)[:n])
			b[rng.Intn(len(b))] = letters[rng.Intn(len(letters))]
			return string(b)
		case 3: // exact power (period divides the length)
			u := rnd(1 + rng.Intn(8))
			return strings.Repeat(u, 1+n/len(u))
		case 4: // Fibonacci word
			if rng.Intn(2) == 0 {
				first, last = last, first
			}
			return fib(n, first, last)
		default: // Fibonacci word with one letter changed
			b := []byte(fib(n, first, last))
			b[rng.Intn(len(b))] = letters[rng.Intn(len(letters))]
			return string(b)
		}
	}
	report := func(kind string, in, out string) {
		idx := strings.Index(in+in, out)
		if idx < 0 {
			idx = 0 // the spec then rejects: o is not the rotation of s at idx
		}
		emit(map[string]interface{}{"k": kind, "g": g, "s": in, "o": out, "idx": idx})
	}
	call := func(kind string, in string) { report(kind, in, seqhash.RotateSequence(in)) }
	// callAll: the rotations of one group canonicalised at the same time (the function is pure: overlapping calls
	// must not disturb one another), reported in order
	callAll := func(kind string, ins []string) {
		outs := make([]string, len(ins))
		var wg sync.WaitGroup
		for i := range ins {
			wg.Add(1)
			go func(i int) { defer wg.Done(); outs[i] = seqhash.RotateSequence(ins[i]) }(i)
		}
		wg.Wait()
		for i := range ins {
			report(kind, ins[i], outs[i])
		}
	}
	call("full", "")
	for i := 0; i < nFull; i++ {
		g++
		s := gen(maxFull)
		for r := 0; r < 3; r++ { // the string and two of its rotations form one group
			k := 0
			if r > 0 {
				k = rng.Intn(len(s))
			}
			call("full", s[k:]+s[:k])
		}
	}
	for i := 0; i < nBig; i++ {
		g++
		s := gen(maxBig)
		for r := 0; r < 2; r++ {
			k := 0
			if r > 0 {
				k = rng.Intn(len(s))
			}
			call("big", s[k:]+s[:k])
		}
	}
	// sparse rings: a few thousand letters, nearly all one large letter, the smallest letter present only two to
	// four times with neighbourhoods that differ late; cut right before and right after every occurrence (so that
	// the smallest letter opens or closes the linear text) and at random
	for i := 0; i < nBig; i++ {
		g++
		n := 2001 + rng.Intn(7000)
		fill := "bcd"[rng.Intn(3)]
		b := bytes.Repeat([]byte{fill}, n)
		var at []int
		for k := 2 + rng.Intn(3); k > 0; k-- {
			p := rng.Intn(n)
			if k == 1 && rng.Intn(2) == 0 {
				p = n - 1
			}
			b[p] = 'a'
			at = append(at, p)
			if q := (p + 1 + rng.Intn(3)) % n; b[q] != 'a' && rng.Intn(2) == 0 {
				b[q] = "bcd"[rng.Intn(3)] // the letters right behind an occurrence decide between the candidates
			}
		}
		s := string(b)
		ins := []string{s}
		for _, p := range at {
			for _, k := range []int{p, (p + 1) % n} {
				ins = append(ins, s[k:]+s[:k])
			}
		}
		k := rng.Intn(n)
		ins = append(ins, s[k:]+s[:k])
		for _, in := range ins {
			call("big", in)
		}
	}
	// genome-sized rings just beyond 2^20 (2^21) letters whose least rotation starts in a run of the smallest
	// letter that the stored origin cuts through ("aaa" + ... + "aa")
	sizes := []int{1<<20 + rng.Intn(4096)}
	if tier == "thorough" {
		sizes = append(sizes, 1<<20, 1<<21+rng.Intn(4096))
	}
	for _, n := range sizes {
		g++
		b := make([]byte, n)
		for i := range b {
			b[i] = "bcd"[rng.Intn(3)]
		}
		copy(b, "aaa")
		copy(b[n-2:], "aa")
		s := string(b)
		for _, k := range []int{0, n - 2, n / 2} {
			call("big", s[k:]+s[:k])
		}
	}
	// long ties: rings well beyond 2^16 letters in which two candidate rotations agree for more than 2^16 letters
	// (a run with a late exception, a power of a short word with ONE letter changed), cut at the origin, at the
	// middle, next to the exception and at random
	for i := 0; i < nBig/2; i++ {
		g++
		n := 70000 + rng.Intn(maxBig-70000+1)
		if tier == "thorough" && i%2 == 0 {
			n = 140000 + rng.Intn(200000)
		}
		var b []byte
		pos := 0
		switch i % 3 {
		case 0:
			b = []byte(strings.Repeat("a", n))
			pos = n - 2
			b[pos] = 'b'
		case 1:
			u := []string{"abcd", "ab", "aab", "dcba", "abcabd"}[rng.Intn(5)]
			b = []byte(strings.Repeat(u, n/len(u)+1)[:n/len(u)*len(u)])
			pos = rng.Intn(len(b))
			b[pos] = "abcd"[(strings.IndexByte("abcd", b[pos])+1+rng.Intn(3))%4]
		default:
			b = []byte(fib(n, "a", "b"))
			pos = rng.Intn(len(b))
			b[pos] = 'a' + 'b' - b[pos]
		}
		s := string(b)
		var ins []string
		for _, k := range []int{0, len(s) / 2, (pos + 1) % len(s), (pos + len(s) - 70000) % len(s), rng.Intn(len(s))} {
			ins = append(ins, s[k:]+s[:k])
		}
		if i%2 == 0 {
			callAll("big", ins)
		} else {
			for _, in := range ins {
				call("big", in)
			}
		}
	}
}
