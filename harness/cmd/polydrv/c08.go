package main

import (
	"bufio"
	"bytes"
	"encoding/json"
	"fmt"
	"math/rand"
	"os"
	"sort"
	"strings"
	"sync"

	"github.com/TimothyStiles/poly/transform/codon"
)

// ---- sparse weight vectors as written by CodonTables!Sparse ----
type sparse struct {
	D int            `json:"d"`
	X map[string]int `json:"x"`
}

func (s *sparse) UnmarshalJSON(b []byte) error {
	var raw struct {
		D int             `json:"d"`
		X json.RawMessage `json:"x"`
	}
	if err := json.Unmarshal(b, &raw); err != nil {
		return err
	}
	s.D = raw.D
	s.X = map[string]int{}
	if len(raw.X) > 0 && raw.X[0] == '{' {
		return json.Unmarshal(raw.X, &s.X)
	}
	return nil // [] = empty function
}
func (s sparse) at(c string) int {
	if v, ok := s.X[c]; ok {
		return v
	}
	return s.D
}

var allCodons = func() []string {
	var out []string
	for _, a := range "TCAG" {
		for _, b := range "TCAG" {
			for _, c := range "TCAG" {
				out = append(out, string([]rune{a, b, c}))
			}
		}
	}
	return out
}()
var allCodonsOnce = strings.Join(allCodons, "")

func toSparse(w map[string]int) map[string]interface{} {
	zeros := 0
	for _, c := range allCodons {
		if w[c] == 0 {
			zeros++
		}
	}
	d := 1
	if zeros >= 32 {
		d = 0
	}
	x := map[string]interface{}{}
	for _, c := range allCodons {
		if w[c] != d {
			x[c] = w[c]
		}
	}
	return map[string]interface{}{"d": d, "x": x}
}

// project a real table: triplet -> weight, triplet -> letter (independent of slice order);
// err describes a malformed table (duplicate / missing / foreign triplets)
func projectTable(t codon.Table) (w map[string]int, letter map[string]string, err string) {
	w, letter = map[string]int{}, map[string]string{}
	for _, aa := range t.AminoAcids {
		for _, c := range aa.Codons {
			if _, dup := w[c.Triplet]; dup {
				err = "triplet " + c.Triplet + " occurs twice"
			}
			w[c.Triplet] = c.Weight
			letter[c.Triplet] = aa.Letter
		}
	}
	if len(w) != 64 && err == "" {
		err = fmt.Sprintf("table has %d triplets", len(w))
	}
	for _, c := range allCodons {
		if _, ok := w[c]; !ok && err == "" {
			err = "triplet " + c + " missing"
		}
	}
	return
}

type codeInfo struct {
	I      int               `json:"i"`
	Code   map[string]string `json:"code"`
	Starts []string          `json:"starts"`
	Stops  []string          `json:"stops"`
}

var c08Codes = map[int]codeInfo{}
var c08Mu sync.Mutex

func c08Prepare(path string) {
	f, err := os.Open(path)
	if err != nil {
		fatal("open: %v", err)
	}
	defer f.Close()
	sc := bufio.NewScanner(f)
	sc.Buffer(make([]byte, 1<<20), 1<<28)
	for sc.Scan() {
		if !bytes.Contains(sc.Bytes(), []byte(`codes`)) {
			continue
		}
		c, _ := unwrap(sc.Bytes())
		var h struct {
			K     string
			Codes []codeInfo
		}
		if json.Unmarshal(c, &h) == nil && h.K == "codes" {
			for _, ci := range h.Codes {
				c08Codes[ci.I] = ci
			}
			return
		}
	}
	fatal("C08: no codes header in case file")
}

// checkCode: the codon -> amino-acid assignment and start/stop lists of a table of genetic code id
func checkCode(t codon.Table, id int) string {
	ci, okc := c08Codes[id]
	if !okc {
		return ""
	}
	_, letter, perr := projectTable(t)
	if perr != "" {
		return perr
	}
	for _, c := range allCodons {
		if letter[c] != ci.Code[c] {
			return fmt.Sprintf("codon %s is assigned %q, genetic code %d says %q", c, letter[c], id, ci.Code[c])
		}
	}
	gs, _ := sortedSet(t.StartCodons)
	ws, _ := sortedSet(ci.Starts)
	gp, _ := sortedSet(t.StopCodons)
	wp, _ := sortedSet(ci.Stops)
	if strings.Join(gs, ",") != strings.Join(ws, ",") || strings.Join(gp, ",") != strings.Join(wp, ",") {
		return fmt.Sprintf("start/stop codons changed: %v / %v", gs, gp)
	}
	return ""
}

type c08Op struct {
	Op     string `json:"op"`
	I      int    `json:"i"`
	T      int    `json:"t"`
	H      int    `json:"h"`
	H1     int    `json:"h1"`
	H2     int    `json:"h2"`
	S      string `json:"s"`
	Cut    int    `json:"cut"`
	tables map[int]codon.Table
}

// resetDefaults restores the process-wide default tables through the public API
// (re-weighting with a sequence that holds every codon exactly once sets every
// weight to 1; on an implementation without shared state this is a no-op).
func resetDefaults(ids []int) {
	for _, i := range ids {
		codon.GetCodonTable(i).OptimizeTable(allCodonsOnce)
	}
}

func roundtrip(t codon.Table, viaFile bool) codon.Table {
	if viaFile {
		f, err := os.CreateTemp("", "polyverif-c08-*.json")
		if err == nil {
			name := f.Name()
			f.Close()
			defer os.Remove(name)
			codon.WriteCodonJSON(t, name)
			return codon.ReadCodonJSON(name)
		}
	}
	b, _ := json.MarshalIndent(t, "", " ")
	return codon.ParseCodonJSON(b)
}

func applyOp(h map[int]codon.Table, op c08Op, n int) string {
	switch op.Op {
	case "get":
		h[op.T] = codon.GetCodonTable(op.I)
	case "rw":
		h[op.H] = h[op.H].OptimizeTable(op.S)
	case "add":
		h[op.T] = codon.AddCodonTable(h[op.H1], h[op.H2])
	case "comp":
		t, err := codon.CompromiseCodonTable(h[op.H1], h[op.H2], float64(op.Cut)/10000)
		if err != nil {
			return "CompromiseCodonTable error: " + err.Error()
		}
		h[op.T] = t
	case "rt":
		h[op.T] = roundtrip(h[op.H], n%7 == 0)
	case "save":
		codon.WriteCodonJSON(h[op.H], c08File)
	case "load":
		h[op.T] = codon.ReadCodonJSON(c08File)
	default:
		fatal("C08 unknown op %q", op.Op)
	}
	return ""
}

func matches(obs map[string]int, nom sparse, tol int) bool {
	for _, c := range allCodons {
		n := nom.at(c)
		if n == -1 {
			continue
		}
		d := obs[c] - n
		if d < -tol || d > tol {
			return false
		}
	}
	return true
}

var c08Count int

// c08File: the session's JSON file.  ONE path for the whole process, never removed or truncated by the harness: what
// a load yields must be what the last save wrote, whatever earlier histories left at (or read from) that path.
var c08File = func() string {
	return tmpFile([]byte(strings.Repeat("{\"stale\": \"content of an earlier, longer document\"} ", 200)))
}()

func c08Replay(c json.RawMessage) Verdict {
	var cs struct {
		K       string
		Path    []c08Op
		Handles map[string]struct {
			Live bool
			Code int
			Ab   sparse
			Id   sparse
			Tol  int
		}
		Fresh []struct {
			I  int
			Ab sparse
		}
	}
	if err := json.Unmarshal(c, &cs); err != nil {
		fatal("C08 case: %v: %.300s", err, c)
	}
	if cs.K == "codes" {
		return ok(false)
	}
	ids := []int{}
	for _, f := range cs.Fresh {
		ids = append(ids, f.I)
	}
	resetDefaults(ids)
	c08Count++
	h := map[int]codon.Table{}
	for _, op := range cs.Path {
		if e := applyOp(h, op, c08Count); e != "" {
			return bad("%s", e)
		}
	}
	// table numbers NCBI does not list (withdrawn 7, 8, 15; never assigned 0, 17, 32, 99): whatever GetCodonTable hands
	// out for them, re-weighting it must not reach the default table of any listed id - the comparison of the fresh
	// tables below is made after this
	for _, x := range []int{7, 8, 15, 0, 17, 32, 99} {
		func() {
			defer func() { _ = recover() }()
			_ = codon.GetCodonTable(x).OptimizeTable("ATGAAATTTGGGTGATAGTAACTGCTG")
		}()
	}
	ideal, asbuilt := true, true
	why := ""
	for k, exp := range cs.Handles {
		if !exp.Live {
			continue
		}
		var slot int
		fmt.Sscan(k, &slot)
		w, _, perr := projectTable(h[slot])
		if perr != "" {
			return bad("handle %d: malformed table: %s", slot, perr)
		}
		if e := checkCode(h[slot], exp.Code); e != "" {
			return bad("handle %d: genetic code not preserved: %s", slot, e)
		}
		if !matches(w, exp.Id, exp.Tol) {
			ideal = false
			why += fmt.Sprintf("handle %d differs from the value-semantics model; ", slot)
		}
		if !matches(w, exp.Ab, exp.Tol) {
			asbuilt = false
			why += fmt.Sprintf("handle %d differs from the shared-slice model; ", slot)
		}
	}
	for _, f := range cs.Fresh {
		t := codon.GetCodonTable(f.I)
		w, _, perr := projectTable(t)
		if perr != "" {
			return bad("fresh table %d malformed: %s", f.I, perr)
		}
		if e := checkCode(t, f.I); e != "" {
			return bad("fresh default table %d: %s", f.I, e)
		}
		if !matches(w, sparse{D: 1}, 0) {
			ideal = false
			why += fmt.Sprintf("a freshly requested default table %d is not pristine; ", f.I)
		}
		if !matches(w, f.Ab, 0) {
			asbuilt = false
			why += fmt.Sprintf("fresh table %d differs from the shared-slice model; ", f.I)
		}
	}
	switch {
	case ideal:
		return ok(len(cs.Path) >= 2)
	case asbuilt:
		return dev("C08-default-tables-share-slices", "%s", why)
	default:
		return bad("after the last step of the history: %s", why)
	}
}

func init() {
	registry["C08"] = &Prop{Replay: c08Replay, Serial: true, Prepare: c08Prepare, Record: c08Record}
}

// ---- I->S: long random histories with the observed state after every step ----
func randCoding(rng *rand.Rand, n int, full bool) string {
	var b strings.Builder
	if full { // every amino acid occurs: all codons once, shuffled
		p := rng.Perm(64)
		for _, i := range p {
			b.WriteString(allCodons[i])
		}
	}
	alpha := "ACGTacgt"
	switch rng.Intn(6) {
	case 0:
		alpha = "ACGTacgtNnRY-"
	case 1: // RNA spelling mixed in: a triplet with U is not a codon of the table
		alpha = "ACGTacgtUuACGT"
	case 2: // ... and a transcript proper: U throughout, no T anywhere
		alpha = "ACGUacguACG"
	}
	for b.Len() < n {
		b.WriteByte(alpha[rng.Intn(len(alpha))])
	}
	return b.String()
}

func c08Observe(h map[int]codon.Table, ids []int) map[string]interface{} {
	hs := map[string]interface{}{}
	for slot := 0; slot < 3; slot++ {
		t, live := h[slot]
		if !live {
			hs[fmt.Sprint(slot)] = map[string]interface{}{"live": false}
			continue
		}
		w, letter, perr := projectTable(t)
		// codeok: the real table still carries the assignment of the pristine default table of its id
		hs[fmt.Sprint(slot)] = map[string]interface{}{"live": true, "w": toSparse(w), "malformed": perr != "", "letters": lettersString(letter)}
	}
	fr := []interface{}{}
	for _, i := range ids {
		w, letter, perr := projectTable(codon.GetCodonTable(i))
		fr = append(fr, map[string]interface{}{"i": i, "w": toSparse(w), "malformed": perr != "", "letters": lettersString(letter)})
	}
	return map[string]interface{}{"handles": hs, "fresh": fr}
}

// 64 letters in TCAG order ("?" for a missing triplet)
func lettersString(letter map[string]string) string {
	var b strings.Builder
	for _, c := range allCodons {
		if l, ok := letter[c]; ok && len(l) == 1 {
			b.WriteString(l)
		} else {
			b.WriteString("?")
		}
	}
	return b.String()
}

func c08Record(tier string, seed int64, emit func(interface{})) {
	rng := rand.New(rand.NewSource(seed))
	nHist, maxSteps, maxSeq, nBig := 6, 25, 3000, 1
	if tier == "thorough" {
		nHist, maxSteps, maxSeq, nBig = 40, 50, 3000, 6
	}
	all := append([]int(nil), tableIds...)
	for hi := 0; hi < nHist; hi++ {
		rng.Shuffle(len(all), func(i, j int) { all[i], all[j] = all[j], all[i] })
		ids := append([]int(nil), all[:3]...)
		sort.Ints(ids)
		resetDefaults(tableIds)
		emit(map[string]interface{}{"op": "reset", "ids": ids})
		h := map[int]codon.Table{}
		code := map[int]int{}
		big := 0
		saved, savedCode := false, 0
		for st := 0; st < 1+rng.Intn(maxSteps); st++ {
			t := st % 3
			var live []int
			for s := range h {
				live = append(live, s)
			}
			sort.Ints(live)
			ev := map[string]interface{}{}
			r := rng.Intn(10)
			switch {
			case len(live) == 0 || r < 3:
				i := ids[rng.Intn(len(ids))]
				h[t] = codon.GetCodonTable(i)
				code[t] = i
				ev = map[string]interface{}{"op": "get", "i": i, "t": t}
			case r < 6:
				x := live[rng.Intn(len(live))]
				n := rng.Intn(maxSeq)
				if rng.Intn(3) == 0 {
					n = rng.Intn(30)
				}
				if big < nBig && rng.Intn(8) == 0 {
					n = 50000 + rng.Intn(50000)
					big++
				}
				s := randCoding(rng, n, rng.Intn(2) == 0)
				h[x] = h[x].OptimizeTable(s)
				ev = map[string]interface{}{"op": "rw", "h": x, "s": s}
			case r < 8:
				// add / compromise need two live handles of one genetic code
				var pairs [][2]int
				for _, a := range live {
					for _, b := range live {
						if code[a] == code[b] {
							pairs = append(pairs, [2]int{a, b})
						}
					}
				}
				p := pairs[rng.Intn(len(pairs))]
				if r == 6 {
					h[t] = codon.AddCodonTable(h[p[0]], h[p[1]])
					code[t] = code[p[0]]
					ev = map[string]interface{}{"op": "add", "h1": p[0], "h2": p[1], "t": t}
				} else {
					cut := []int{0, 0, 500, 1000, 2500, 10000}[rng.Intn(6)]
					tt, err := codon.CompromiseCodonTable(h[p[0]], h[p[1]], float64(cut)/10000)
					if err != nil {
						ev = map[string]interface{}{"op": "comperr", "h1": p[0], "h2": p[1], "cut": cut, "t": t}
					} else {
						h[t] = tt
						code[t] = code[p[0]]
						ev = map[string]interface{}{"op": "comp", "h1": p[0], "h2": p[1], "cut": cut, "t": t}
					}
				}
			case r == 8 && rng.Intn(2) == 0:
				x := live[rng.Intn(len(live))]
				codon.WriteCodonJSON(h[x], c08File)
				saved, savedCode = true, code[x]
				ev = map[string]interface{}{"op": "save", "h": x}
			case r == 8 && saved:
				h[t] = codon.ReadCodonJSON(c08File)
				code[t] = savedCode
				ev = map[string]interface{}{"op": "load", "t": t}
			default:
				x := live[rng.Intn(len(live))]
				h[t] = roundtrip(h[x], rng.Intn(4) == 0)
				code[t] = code[x]
				ev = map[string]interface{}{"op": "rt", "h": x, "t": t}
			}
			ev["obs"] = c08Observe(h, ids)
			emit(ev)
		}
	}
	// concurrent re-weighting of default tables with pairwise different ids (run under the race detector in thorough)
	nConc := 6
	if tier == "thorough" {
		nConc = 60
	}
	for ci := 0; ci < nConc; ci++ {
		resetDefaults(tableIds)
		rng.Shuffle(len(all), func(i, j int) { all[i], all[j] = all[j], all[i] })
		k := 2 + rng.Intn(5)
		ids := append([]int(nil), all[:k]...)
		sort.Ints(ids)
		emit(map[string]interface{}{"op": "reset", "ids": ids})
		seqs := make([]string, k)
		for j := range seqs {
			seqs[j] = randCoding(rng, 30+rng.Intn(1500), rng.Intn(2) == 0)
		}
		results := make([]codon.Table, k)
		var wg sync.WaitGroup
		start := make(chan struct{})
		for j := 0; j < k; j++ {
			wg.Add(1)
			go func(j int) {
				defer wg.Done()
				<-start
				for rep := 0; rep < 3; rep++ {
					results[j] = codon.GetCodonTable(ids[j]).OptimizeTable(seqs[j])
				}
			}(j)
		}
		close(start)
		wg.Wait()
		res := []interface{}{}
		for j := 0; j < k; j++ {
			w, _, _ := projectTable(results[j])
			res = append(res, toSparse(w))
		}
		emit(map[string]interface{}{"op": "conc", "ids": ids, "seqs": seqs, "results": res, "obs": c08Observe(map[int]codon.Table{}, ids)})
	}
	resetDefaults(tableIds)
}
