package main

import (
	"bufio"
	"encoding/json"
	"fmt"
	"math/rand"
	"os"
	"strings"
	"sync"

	"github.com/TimothyStiles/poly"
	"github.com/TimothyStiles/poly/io/genbank"
)

type specLoc struct {
	Start      int       `json:"start"`
	End        int       `json:"end"`
	Complement bool      `json:"complement"`
	Join       bool      `json:"join"`
	P5         bool      `json:"p5"`
	P3         bool      `json:"p3"`
	Subs       []specLoc `json:"subs"`
}

func (s specLoc) real() poly.Location {
	l := poly.Location{Start: s.Start, End: s.End, Complement: s.Complement, Join: s.Join, FivePrimePartial: s.P5, ThreePrimePartial: s.P3}
	for _, x := range s.Subs {
		l.SubLocations = append(l.SubLocations, x.real())
	}
	if len(s.Subs) == 0 && (s.Start+s.End)%2 == 0 {
		l.SubLocations = []poly.Location{} // no operands, spelled as an empty list (JSON "sub_locations": [], make(.., 0, n))
	}
	return l
}

func seqOf(loc poly.Location, parent string) (out string) {
	defer func() {
		if r := recover(); r != nil {
			out = fmt.Sprintf("<panic: %v>", r)
		}
	}()
	seq := poly.Sequence{Sequence: parent}
	kind := featKinds[(len(parent)+loc.Start+2*loc.End+len(loc.SubLocations))%len(featKinds)]
	f := poly.Feature{Type: kind.key, SequenceLocation: loc, Attributes: map[string]string{}}
	for _, q := range kind.quals {
		f.Attributes[q[0]] = q[1]
	}
	seq.AddFeature(&f)
	return seq.Features[0].GetSequence()
}

// the feature's sequence is the INSDC reading of its LOCATION, whatever its key and qualifiers say
var featKinds = []struct {
	key   string
	quals [][2]string
}{
	{"misc_feature", [][2]string{{"note", "x"}}},
	{"CDS", [][2]string{{"codon_start", "2"}, {"product", "p"}}},
	{"CDS", [][2]string{{"codon_start", "3"}, {"transl_table", "11"}, {"translation", "MK"}}},
	{"gene", [][2]string{{"gene", "g"}, {"pseudo", ""}}},
	{"source", [][2]string{{"organism", "o"}, {"mol_type", "genomic DNA"}}},
	{"mRNA", nil},
	{"CDS", [][2]string{{"codon_start", "1"}, {"exception", "ribosomal slippage"}}},
}

func viaParser(text, parent string) (out string) {
	defer func() {
		if r := recover(); r != nil {
			out = fmt.Sprintf("<panic: %v>", r)
		}
	}()
	return seqOf(genbank.VerifParseLocation(text), parent)
}

func originBlock(seq string) string {
	var b strings.Builder
	for i := 0; i < len(seq); i += 60 {
		fmt.Fprintf(&b, "%9d", i+1)
		for j := i; j < i+60 && j < len(seq); j += 10 {
			e := j + 10
			if e > len(seq) {
				e = len(seq)
			}
			b.WriteString(" " + seq[j:e])
		}
		b.WriteString("\n")
	}
	return b.String()
}

func viaRecord(text, parent string) (out string) {
	defer func() {
		if r := recover(); r != nil {
			out = fmt.Sprintf("<panic: %v>", r)
		}
	}()
	s := genbank.Parse([]byte(recText(text, parent)))
	if len(s.Features) != 1 {
		return fmt.Sprintf("<%d features parsed>", len(s.Features))
	}
	return strings.ToUpper(s.Features[0].GetSequence())
}

func recText(text, parent string) string {
	kind := featKinds[(len(parent)+len(text))%len(featKinds)]
	var quals strings.Builder
	for _, q := range kind.quals {
		switch {
		case q[1] == "":
			fmt.Fprintf(&quals, "                     /%s\n", q[0])
		case q[0] == "codon_start" || q[0] == "transl_table":
			fmt.Fprintf(&quals, "                     /%s=%s\n", q[0], q[1])
		default:
			fmt.Fprintf(&quals, "                     /%s=\"%s\"\n", q[0], q[1])
		}
	}
	return fmt.Sprintf("LOCUS       TESTLOC %15d bp    DNA     linear   UNK 01-JAN-2000\nDEFINITION  location test.\nFEATURES             Location/Qualifiers\n     %-16s%s\n%sORIGIN\n%s//\n", len(parent), kind.key, text, quals.String(), originBlock(strings.ToLower(parent)))
}

// viaMulti: the same feature in every record of a multi-record file, each record with its own sequence
func viaMulti(text string, parents []string) (out []string) {
	defer func() {
		if r := recover(); r != nil {
			out = []string{fmt.Sprintf("<panic: %v>", r)}
		}
	}()
	var file strings.Builder
	for _, p := range parents {
		file.WriteString(recText(text, p))
	}
	for _, s := range genbank.ParseMulti([]byte(file.String())) {
		if len(s.Features) != 1 {
			out = append(out, fmt.Sprintf("<%d features parsed>", len(s.Features)))
			continue
		}
		out = append(out, strings.ToUpper(s.Features[0].GetSequence()))
	}
	return out
}

func printed(loc poly.Location) (out string) {
	defer func() {
		if r := recover(); r != nil {
			out = fmt.Sprintf("<panic: %v>", r)
		}
	}()
	return genbank.BuildLocationString(loc)
}

var c02Side *bufio.Writer
var c02SideMu sync.Mutex
var c02SideN int

func c02Event(text, parent string, loc poly.Location) map[string]interface{} {
	// the structure is written to text FIRST, evaluated afterwards and written again: writing must not alter it
	// (viastruct is the evaluation after the write, printed2 the second write)
	before := seqOf(loc, parent)
	p1 := printed(loc)
	after := seqOf(loc, parent)
	if after != before {
		after = "<after writing the location to text: " + after + "; before: " + before + ">"
	}
	return map[string]interface{}{"k": "loc", "text": text, "parent": parent, "viaparser": viaParser(text, parent),
		"viarecord": viaRecord(text, parent), "viastruct": after, "printed": p1, "printed2": printed(loc)}
}

func c02Replay(c json.RawMessage) Verdict {
	var cs struct {
		Text   string
		Struct specLoc
		Ops    int
		P1, B1 string
		P2, B2 string
	}
	if err := json.Unmarshal(c, &cs); err != nil {
		fatal("C02 case: %v", err)
	}
	loc := cs.Struct.real()
	for _, pb := range [][2]string{{cs.P1, cs.B1}, {cs.P2, cs.B2}} {
		if got := viaParser(cs.Text, pb[0]); got != pb[1] {
			return bad("location %s on parent %s: parsed location gives %q, INSDC reading is %q", cs.Text, pb[0], got, pb[1])
		}
		if got := viaRecord(cs.Text, pb[0]); got != pb[1] {
			return bad("location %s on parent %s: feature parsed from a GenBank record gives %q, INSDC reading is %q", cs.Text, pb[0], got, pb[1])
		}
		if got := seqOf(loc, pb[0]); got != pb[1] {
			return bad("location %s on parent %s: assembled structure gives %q, INSDC reading is %q", cs.Text, pb[0], got, pb[1])
		}
	}
	// the records of a multi-record file each have their own sequence: a feature reports the bases of ITS record
	if cs.P2 != cs.P1 {
		want := []string{cs.B1, cs.B2, cs.B1}
		got := viaMulti(cs.Text, []string{cs.P1, cs.P2, cs.P1})
		if strings.Join(got, "|") != strings.Join(want, "|") {
			return bad("location %s in the three records (sequences %s, %s, %s) of one file read by ParseMulti: the features report %q, INSDC reading is %q", cs.Text, cs.P1, cs.P2, cs.P1, got, want)
		}
	}
	// a feature (already linked to one sequence) added to ANOTHER sequence reports that sequence's bases
	if cs.P2 != cs.P1 && len(cs.P2) == len(cs.P1) {
		s1, s2 := poly.Sequence{Sequence: cs.P1}, poly.Sequence{Sequence: cs.P2}
		f := poly.Feature{Type: "misc_feature", SequenceLocation: loc}
		s1.AddFeature(&f)
		s2.AddFeature(&f)
		s2.AddFeature(&s1.Features[0])
		for i, ft := range s2.Features {
			got := func() (out string) {
				defer func() {
					if r := recover(); r != nil {
						out = fmt.Sprintf("<panic: %v>", r)
					}
				}()
				return ft.GetSequence()
			}()
			if got != cs.B2 {
				return bad("location %s: a feature first added to a sequence %s and then to %s reports %q there (copy %d), INSDC reading on the second sequence is %q", cs.Text, cs.P1, cs.P2, got, i, cs.B2)
			}
		}
	}
	// writing a location to text must not alter it: evaluate again after BuildLocationString, and write twice
	p1 := printed(loc)
	if got := seqOf(loc, cs.P1); got != cs.B1 {
		return bad("location %s on parent %s: after the structure was written to text (%s) it gives %q, INSDC reading is %q", cs.Text, cs.P1, p1, got, cs.B1)
	}
	if p2 := printed(loc); p2 != p1 {
		return bad("location %s: written to text twice, the structure gives %q and then %q", cs.Text, p1, p2)
	}
	parsed := genbank.VerifParseLocation(cs.Text)
	q1 := printed(parsed)
	if got := seqOf(parsed, cs.P1); got != cs.B1 {
		return bad("location %s on parent %s: after the parsed location was written to text (%s) it gives %q, INSDC reading is %q", cs.Text, cs.P1, q1, got, cs.B1)
	}
	if q2 := printed(parsed); q2 != q1 {
		return bad("location %s: the parsed location written to text twice gives %q and then %q", cs.Text, q1, q2)
	}
	// the printed form is judged by the specification's INSDC recogniser (C02_Trace): side file
	if c02Side != nil {
		c02SideMu.Lock()
		c02SideN++
		if c02SideN%c02Every == 0 {
			b, _ := json.Marshal(c02Event(cs.Text, cs.P1, loc))
			c02Side.Write(append(b, '\n'))
		}
		c02SideMu.Unlock()
	}
	return ok(cs.Ops >= 1)
}

var c02Every = 1

// ---- random expressions for the I->S direction ----
type gAst struct {
	kind   string // span single join compl
	a, b   int
	p5, p3 bool
	xs     []gAst
}

func genAst(rng *rand.Rand, n, depth int) gAst {
	if depth == 0 || rng.Intn(3) == 0 {
		if rng.Intn(5) == 0 {
			return gAst{kind: "single", a: 1 + rng.Intn(n)}
		}
		a := 1 + rng.Intn(n)
		b := a + rng.Intn(n-a+1)
		if b-a > 60 {
			b = a + rng.Intn(60)
		}
		if rng.Intn(8) == 0 { // a span of one base, often partial: n..n, <n..n, n..>n
			return gAst{kind: "span", a: a, b: a, p5: rng.Intn(2) == 0, p3: rng.Intn(3) == 0}
		}
		return gAst{kind: "span", a: a, b: b, p5: rng.Intn(6) == 0, p3: rng.Intn(6) == 0}
	}
	if rng.Intn(3) == 0 {
		return gAst{kind: "compl", xs: []gAst{genAst(rng, n, depth-1)}}
	}
	g := gAst{kind: "join"}
	for i := 0; i < 2+rng.Intn(5); i++ {
		g.xs = append(g.xs, genAst(rng, n, depth-1))
	}
	return g
}
func (g gAst) text() string {
	switch g.kind {
	case "single":
		return fmt.Sprint(g.a)
	case "span":
		s := ""
		if g.p5 {
			s = "<"
		}
		s += fmt.Sprint(g.a) + ".."
		if g.p3 {
			s += ">"
		}
		return s + fmt.Sprint(g.b)
	case "compl":
		return "complement(" + g.xs[0].text() + ")"
	}
	var parts []string
	for _, x := range g.xs {
		parts = append(parts, x.text())
	}
	return "join(" + strings.Join(parts, ",") + ")"
}
func (g gAst) loc() poly.Location {
	switch g.kind {
	case "single":
		return poly.Location{Start: g.a - 1, End: g.a}
	case "span":
		return poly.Location{Start: g.a - 1, End: g.b, FivePrimePartial: g.p5, ThreePrimePartial: g.p3}
	case "compl":
		s := g.xs[0].loc()
		if s.Complement {
			return poly.Location{Complement: true, SubLocations: []poly.Location{s}}
		}
		s.Complement = true
		return s
	}
	l := poly.Location{Join: true}
	for _, x := range g.xs {
		l.SubLocations = append(l.SubLocations, x.loc())
	}
	return l
}

func c02Record(tier string, seed int64, emit func(interface{})) {
	rng := rand.New(rand.NewSource(seed))
	n := 400
	if tier == "thorough" {
		n = 5000
	}
	for i := 0; i < n; i++ {
		plen := 1 + rng.Intn(2000)
		if rng.Intn(2) == 0 {
			plen = 1 + rng.Intn(40)
		}
		parent := make([]byte, plen)
		for j := range parent {
			parent[j] = "ACGT"[rng.Intn(4)]
		}
		g := genAst(rng, plen, 1+rng.Intn(4))
		emit(c02Event(g.text(), string(parent), g.loc()))
	}
}

func init() {
	registry["C02"] = &Prop{Replay: c02Replay, Record: c02Record, Prepare: func(string) {
		if p := os.Getenv("C02_PRINTED"); p != "" {
			f, err := os.Create(p)
			if err != nil {
				fatal("C02 side file: %v", err)
			}
			c02Side = bufio.NewWriterSize(f, 1<<20)
			fmt.Sscan(os.Getenv("C02_EVERY"), &c02Every)
			if c02Every < 1 {
				c02Every = 1
			}
		}
	}, Finish: func() {
		if c02Side != nil {
			c02Side.Flush()
		}
	}}
}
