package main

import (
	"bytes"
	"encoding/json"
	"fmt"
	"math/rand"
	"os"
	"reflect"
	"strings"

	"github.com/TimothyStiles/poly"
	"github.com/TimothyStiles/poly/io/genbank"
	"github.com/TimothyStiles/poly/io/gff"
	"github.com/TimothyStiles/poly/io/polyjson"
)

// normJSON re-reads JSON text generically and maps null and empty objects to the empty list
// ("empty and absent collections are equal"); numbers stay integers.
func normJSON(text []byte) (interface{}, error) {
	dec := json.NewDecoder(bytes.NewReader(text))
	dec.UseNumber()
	var v interface{}
	if err := dec.Decode(&v); err != nil {
		return nil, err
	}
	return normVal(v), nil
}
func normVal(v interface{}) interface{} {
	switch x := v.(type) {
	case nil:
		return []interface{}{}
	case map[string]interface{}:
		if len(x) == 0 {
			return []interface{}{}
		}
		o := map[string]interface{}{}
		for k, e := range x {
			o[k] = normVal(e)
		}
		return o
	case []interface{}:
		o := []interface{}{}
		for _, e := range x {
			o = append(o, normVal(e))
		}
		return o
	case json.Number:
		n, _ := x.Int64()
		return n
	}
	return v
}

func locFromJ(j map[string]interface{}) poly.Location {
	l := poly.Location{Start: int(j["start"].(int64)), End: int(j["end"].(int64)), Complement: j["complement"].(bool), Join: j["join"].(bool),
		FivePrimePartial: j["five_prime_partial"].(bool), ThreePrimePartial: j["three_prime_partial"].(bool)}
	for _, s := range j["sub_locations"].([]interface{}) {
		l.SubLocations = append(l.SubLocations, locFromJ(s.(map[string]interface{})))
	}
	return l
}
func strMap(v interface{}) map[string]string {
	m := map[string]string{}
	if o, ok := v.(map[string]interface{}); ok {
		for k, e := range o {
			m[k] = e.(string)
		}
	}
	return m
}

// seqFromJ assembles a poly.Sequence by hand from the specification's JSON form (generic value)
func seqFromJ(j map[string]interface{}) poly.Sequence {
	m := j["meta"].(map[string]interface{})
	s := poly.Sequence{Description: j["description"].(string), Sequence: j["sequence"].(string)}
	g := func(k string) string { return m[k].(string) }
	s.Meta = poly.Meta{Name: g("name"), GffVersion: g("gff_version"), RegionStart: int(m["region_start"].(int64)), RegionEnd: int(m["region_end"].(int64)),
		Size: int(m["size"].(int64)), Type: g("type"), Date: g("date"), Definition: g("definition"), Accession: g("accession"), Version: g("version"),
		Keywords: g("keywords"), Organism: g("organism"), Source: g("source"), Origin: g("origin")}
	lc := m["locus"].(map[string]interface{})
	s.Meta.Locus = poly.Locus{Name: lc["name"].(string), SequenceLength: lc["sequence_length"].(string), MoleculeType: lc["molecule_type"].(string),
		GenbankDivision: lc["genbank_division"].(string), ModificationDate: lc["modification_date"].(string), SequenceCoding: lc["sequence_coding"].(string),
		Circular: lc["circular"].(bool), Linear: lc["linear"].(bool)}
	for _, r := range m["references"].([]interface{}) {
		x := r.(map[string]interface{})
		s.Meta.References = append(s.Meta.References, poly.Reference{Index: x["index"].(string), Authors: x["authors"].(string), Title: x["title"].(string),
			Journal: x["journal"].(string), PubMed: x["pub_med"].(string), Remark: x["remark"].(string), Range: x["range"].(string)})
	}
	if o := strMap(m["other"]); len(o) > 0 {
		s.Meta.Other = o
	}
	for _, fv := range j["features"].([]interface{}) {
		f := fv.(map[string]interface{})
		ft := poly.Feature{Name: f["Name"].(string), Source: f["source"].(string), Type: f["type"].(string), Score: f["score"].(string),
			Strand: f["strand"].(string), Phase: f["phase"].(string), GbkLocationString: f["gbk_location_string"].(string),
			Description: f["description"].(string), SequenceLocation: locFromJ(f["sequence_location"].(map[string]interface{}))}
		if a := strMap(f["attributes"]); len(a) > 0 {
			ft.Attributes = a
		}
		s.AddFeature(&ft)
	}
	return s
}

func featSeqs(s poly.Sequence) (out []string, perr string) {
	defer func() {
		if r := recover(); r != nil {
			perr = fmt.Sprint(r)
		}
	}()
	out = []string{}
	for _, f := range s.Features {
		if !resolvable(f.SequenceLocation, len(s.Sequence)) {
			// the feature has no bases to report (annotation-only record, feature past the end): not asked
			out = append(out, "<unresolvable>")
			continue
		}
		out = append(out, f.GetSequence())
	}
	return out, ""
}

func resolvable(l poly.Location, n int) bool {
	if len(l.SubLocations) == 0 {
		return 0 <= l.Start && l.Start <= l.End && l.End <= n
	}
	for _, s := range l.SubLocations {
		if !resolvable(s, n) {
			return false
		}
	}
	return true
}

// jsonRoundTrip writes s with polyjson.Write, returns the normalised real JSON, the value read back and its JSON form
func jsonRoundTrip(s poly.Sequence) (real interface{}, back poly.Sequence, backJ interface{}, err string) {
	defer func() {
		if r := recover(); r != nil {
			err = fmt.Sprint(r)
		}
	}()
	// paths are REUSED from a small pool and never truncated by the harness: a write must replace whatever
	// an earlier (possibly longer) document left at that path
	p := <-c15Paths
	defer func() { c15Paths <- p }()
	polyjson.Write(s, p)
	text, _ := os.ReadFile(p)
	real, e := normJSON(text)
	if e != nil {
		return nil, back, nil, "written JSON does not parse: " + e.Error()
	}
	back = polyjson.Read(p)
	b2, _ := json.Marshal(back)
	backJ, _ = normJSON(b2)
	return real, back, backJ, ""
}

var c15Paths = func() chan string {
	ch := make(chan string, 32)
	for i := 0; i < 32; i++ {
		ch <- tmpFile([]byte(strings.Repeat("stale content of an earlier, longer document ", 400)))
	}
	return ch
}()

func c15Replay(c json.RawMessage) Verdict {
	var cs struct {
		JSON  json.RawMessage `json:"json"`
		Bases string          `json:"bases"`
		Res   bool            `json:"res"`
	}
	if err := json.Unmarshal(c, &cs); err != nil {
		fatal("C15 case: %v", err)
	}
	want, err := normJSON(cs.JSON)
	if err != nil {
		fatal("C15 spec json: %v", err)
	}
	s := seqFromJ(want.(map[string]interface{}))
	if !cs.Res {
		cs.Bases = "<unresolvable>"
	}
	before, perr := featSeqs(s)
	if perr != "" || len(before) != 1 || before[0] != cs.Bases {
		return bad("the assembled feature reports %q (%s), its location denotes %q", before, perr, cs.Bases)
	}
	real, back, backJ, e := jsonRoundTrip(s)
	if e != "" {
		return bad("%s", e)
	}
	if !reflect.DeepEqual(real, want) {
		return bad("polyjson.Write output differs from the published JSON form: %s", firstJSONDiff(real, want, ""))
	}
	if !reflect.DeepEqual(backJ, want) {
		return bad("polyjson.Read returns a different value: %s", firstJSONDiff(backJ, want, ""))
	}
	after, perr := featSeqs(back)
	if perr != "" || len(after) != 1 || after[0] != cs.Bases {
		return bad("after the JSON round trip the feature reports %q (%s), its location denotes %q", after, perr, cs.Bases)
	}
	return ok(true)
}

func firstJSONDiff(a, b interface{}, path string) string {
	switch x := a.(type) {
	case map[string]interface{}:
		y, ok := b.(map[string]interface{})
		if !ok {
			return path + ": object vs non-object"
		}
		for k := range y {
			if _, ok := x[k]; !ok {
				return path + "." + k + " is missing"
			}
		}
		for k, v := range x {
			w, ok := y[k]
			if !ok {
				return path + "." + k + " is not part of the published form"
			}
			if d := firstJSONDiff(v, w, path+"."+k); d != "" {
				return d
			}
		}
		return ""
	case []interface{}:
		y, ok := b.([]interface{})
		if !ok || len(x) != len(y) {
			return fmt.Sprintf("%s: lists differ (%v vs %v)", path, a, b)
		}
		for i := range x {
			if d := firstJSONDiff(x[i], y[i], fmt.Sprintf("%s[%d]", path, i)); d != "" {
				return d
			}
		}
		return ""
	}
	if !reflect.DeepEqual(a, b) {
		return fmt.Sprintf("%s: %v vs %v", path, a, b)
	}
	return ""
}

// ---- I->S: random annotated sequences ----
func absLoc(g gAst) map[string]interface{} {
	n := func(start, end int, c, j, p5, p3 bool, subs []interface{}) map[string]interface{} {
		return map[string]interface{}{"start": start, "end": end, "complement": c, "join": j, "p5": p5, "p3": p3, "subs": subs}
	}
	switch g.kind {
	case "single":
		return n(g.a-1, g.a, false, false, false, false, []interface{}{})
	case "span":
		return n(g.a-1, g.b, false, false, g.p5, g.p3, []interface{}{})
	case "compl":
		s := absLoc(g.xs[0])
		if s["complement"].(bool) {
			return n(0, 0, true, false, false, false, []interface{}{s})
		}
		s["complement"] = true
		return s
	}
	subs := []interface{}{}
	for _, x := range g.xs {
		subs = append(subs, absLoc(x))
	}
	return n(0, 0, false, true, false, false, subs)
}

func c15Record(tier string, seed int64, emit func(interface{})) {
	rng := rand.New(rand.NewSource(seed))
	n := 60
	if tier == "thorough" {
		n = 800
	}
	text := func(m int) string {
		ws := wordsN(rng, 1+rng.Intn(m), ",.;:()-/=")
		if rng.Intn(4) == 0 {
			ws = append(ws, []string{"café", "µ-opioid", "日本語", "naïve – dash", "α/β"}[rng.Intn(5)])
		}
		if rng.Intn(4) == 0 { // characters JSON has to escape, and text that looks like an escape
			ws = append(ws, []string{"a\\b", "say \"hi\"", "<1..>200", "R&D", "\\u003c", "\\u0026amp;", "tab\there", "two\nlines", "\\n", "{\"k\":[1]}", "\\\\", "\u0001", "\\"}[rng.Intn(13)])
		}
		return strings.Join(ws, " ")
	}
	for i := 0; i < n; i++ {
		plen := 1 + rng.Intn(400)
		pb := make([]byte, plen)
		for j := range pb {
			pb[j] = "ACGTacgt"[rng.Intn(8)]
		}
		x := map[string]interface{}{"name": text(2), "gffversion": []string{"", "3"}[rng.Intn(2)], "rstart": rng.Intn(3), "rend": plen, "size": plen,
			"type": "", "date": "", "definition": text(30), "accession": text(1), "version": text(1), "keywords": text(3), "organism": text(5),
			"source": text(3), "origin": "", "description": text(4), "sequence": string(pb)}
		switch rng.Intn(8) {
		case 0: // annotation-only record: the features are drawn for plen bases, the sequence is absent
			pb = nil
			x["sequence"] = ""
		case 1: // features may reach past the end of the sequence
			pb = pb[:rng.Intn(plen+1)]
			x["sequence"] = string(pb)
		}
		x["locus"] = map[string]interface{}{"name": text(1), "len": fmt.Sprint(plen), "mol": "DNA", "div": "SYN", "date": "01-JAN-2020", "coding": "bp",
			"circular": rng.Intn(2) == 0, "linear": rng.Intn(2) == 0}
		refs := []interface{}{}
		for j := 0; j < rng.Intn(4); j++ {
			refs = append(refs, map[string]interface{}{"index": fmt.Sprint(j + 1), "authors": text(6), "title": text(8), "journal": text(5), "pubmed": "", "remark": text(3), "range": "(bases 1 to 5)"})
		}
		x["refs"] = refs
		other := map[string]interface{}{}
		for j := 0; j < rng.Intn(3); j++ {
			other[[]string{"COMMENT", "DBLINK", "PRIMARY"}[j]] = text(10)
		}
		x["other"] = other
		feats := []interface{}{}
		for j := 0; j < rng.Intn(8); j++ {
			g := genAst(rng, plen, 1+rng.Intn(4))
			attrs := map[string]interface{}{}
			for a := 0; a < rng.Intn(5); a++ {
				attrs[wordsN(rng, 1, "_")[0]] = text(6)
			}
			lt := ""
			if rng.Intn(2) == 0 {
				lt = g.text()
			}
			feats = append(feats, map[string]interface{}{"name": text(1), "source": text(1), "type": "misc_feature", "score": ".", "strand": "+", "phase": ".",
				"attrs": attrs, "loctext": lt, "loc": absLoc(g), "desc": text(3), "_ast": g})
		}
		x["features"] = feats
		// assemble the poly value by hand from the same choices
		s := poly.Sequence{Description: x["description"].(string), Sequence: string(pb)}
		s.Meta = poly.Meta{Name: x["name"].(string), GffVersion: x["gffversion"].(string), RegionStart: x["rstart"].(int), RegionEnd: plen, Size: plen,
			Definition: x["definition"].(string), Accession: x["accession"].(string), Version: x["version"].(string), Keywords: x["keywords"].(string),
			Organism: x["organism"].(string), Source: x["source"].(string)}
		lc := x["locus"].(map[string]interface{})
		s.Meta.Locus = poly.Locus{Name: lc["name"].(string), SequenceLength: lc["len"].(string), MoleculeType: "DNA", GenbankDivision: "SYN",
			ModificationDate: "01-JAN-2020", SequenceCoding: "bp", Circular: lc["circular"].(bool), Linear: lc["linear"].(bool)}
		for _, r := range refs {
			m := r.(map[string]interface{})
			s.Meta.References = append(s.Meta.References, poly.Reference{Index: m["index"].(string), Authors: m["authors"].(string), Title: m["title"].(string),
				Journal: m["journal"].(string), Remark: m["remark"].(string), Range: m["range"].(string)})
		}
		switch {
		case len(other) > 0:
			s.Meta.Other = map[string]string{}
			for k, v := range other {
				s.Meta.Other[k] = v.(string)
			}
		case rng.Intn(2) == 0:
			s.Meta.Other = map[string]string{} // empty rather than absent
		}
		for _, fv := range feats {
			f := fv.(map[string]interface{})
			ft := poly.Feature{Name: f["name"].(string), Source: f["source"].(string), Type: "misc_feature", Score: ".", Strand: "+", Phase: ".",
				GbkLocationString: f["loctext"].(string), Description: f["desc"].(string), SequenceLocation: f["_ast"].(gAst).loc()}
			delete(f, "_ast")
			if a := f["attrs"].(map[string]interface{}); len(a) > 0 || rng.Intn(2) == 0 {
				ft.Attributes = map[string]string{}
				for k, v := range a {
					ft.Attributes[k] = v.(string)
				}
			}
			s.AddFeature(&ft)
		}
		before, _ := featSeqs(s)
		real, back, backJ, e := jsonRoundTrip(s)
		after, pe := featSeqs(back)
		if e != "" || pe != "" {
			real, backJ, after = []interface{}{}, []interface{}{}, []string{"<" + e + pe + ">"}
		}
		emit(map[string]interface{}{"k": "rt", "x": normVal(toGeneric(x)), "json": real, "back": backJ, "seqsbefore": before, "seqsafter": after})
	}
	// conversion clause: format -> JSON -> format equals format -> format, as text
	nc := 15
	if tier == "thorough" {
		nc = 150
	}
	for i := 0; i < nc; i++ {
		lines, _ := genGbRecord(rng, 1500, 10)
		parsed := genbank.Parse([]byte(strings.Join(lines, "\n") + "\n"))
		direct := genbank.Build(parsed)
		_, back, _, e := jsonRoundTrip(parsed)
		same := e == "" && bytes.Equal(genbank.Build(back), direct)
		emit(map[string]interface{}{"k": "conv", "fmt": "GenBank", "same": same})
	}
	for i := 0; i < nc; i++ {
		// a GFF file from the gff writer of C14's recorder, parsed, converted and rebuilt
		ln := 1 + rng.Intn(600)
		sb := make([]byte, ln)
		for j := range sb {
			sb[j] = "ACGT"[rng.Intn(4)]
		}
		q := poly.Sequence{Sequence: string(sb)}
		same := true
		q.Meta.Name, q.Meta.RegionStart, q.Meta.RegionEnd = "region"+fmt.Sprint(i), 1, ln
		for j := 0; j < rng.Intn(10); j++ {
			a := rng.Intn(ln)
			f := poly.Feature{Name: "chr", Source: "src", Type: "gene", Score: ".", Strand: "+", Phase: ".", Attributes: map[string]string{"ID": fmt.Sprint("f", j), "Note": text(4)}}
			f.Attributes["Note"] = strings.NewReplacer(";", ",", "=", "-", "\t", " ", "\n", " ").Replace(f.Attributes["Note"])
			f.SequenceLocation = poly.Location{Start: a, End: a + 1 + rng.Intn(ln-a)}
			q.AddFeature(&f)
		}
		if rng.Intn(4) == 0 { // annotation-only GFF: no bases after ##FASTA
			q.Sequence = ""
		}
		parsed := gff.Parse(gff.Build(q))
		direct := gff.Build(parsed)
		if len(parsed.Features) != len(q.Features) {
			same = false
		}
		_, back, _, e := jsonRoundTrip(parsed)
		same = same && e == "" && bytes.Equal(gff.Build(back), direct)
		emit(map[string]interface{}{"k": "conv", "fmt": "GFF", "same": same})
	}
}

func toGeneric(v interface{}) interface{} {
	b, _ := json.Marshal(v)
	var g interface{}
	d := json.NewDecoder(bytes.NewReader(b))
	d.UseNumber()
	d.Decode(&g)
	return g
}

func init() {
	registry["C15"] = &Prop{Replay: c15Replay, Record: c15Record}
}
