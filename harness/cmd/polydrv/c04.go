package main

import (
	"encoding/hex"
	"encoding/json"
	"math/rand"
	"runtime"
	"strings"
	"sync"
	"sync/atomic"

	"polyverif/blake3ref"

	"github.com/TimothyStiles/poly/seqhash"
)

func init() {
	// self-check of the independent BLAKE3 transcription (official vectors)
	for in, want := range map[string]string{
		"":    "af1349b9f5f9a1a6a0404dea36dcc9499bcb25c9adc112b7cc9a93cae41f3262",
		"abc": "6437b3ac38465133ffb63b75273a8db548c558465d79db03fd359c6cd5bd9d85",
	} {
		got := blake3ref.Sum256([]byte(in))
		if hex.EncodeToString(got[:]) != want {
			fatal("blake3ref self-check failed")
		}
	}
	p := &Prop{Replay: c04Replay, Record: func(tier string, seed int64, emit func(interface{})) { c04Record(tier, seed, emit, "C04") }}
	registry["C04"] = p
	registry["C05"] = &Prop{Replay: c04Replay, Record: func(tier string, seed int64, emit func(interface{})) { c04Record(tier, seed, emit, "C05") }}
}

func specHash(tag, canon string) string {
	d := blake3ref.Sum256([]byte(canon))
	return "v1_" + tag + "_" + hex.EncodeToString(d[:])
}

// altCase spells s with alternating / lower case (the identifier must not change)
func altCase(s string, mode int) string {
	b := []byte(s)
	for i := range b {
		if mode == 0 || i%2 == 0 {
			if b[i] >= 'A' && b[i] <= 'Z' {
				b[i] += 32
			}
		}
	}
	return string(b)
}

func c04Replay(c json.RawMessage) Verdict {
	var cs struct {
		S     string
		Cases []struct {
			Type     string
			Circ, Ds bool
			Accept   bool
			Tag      string
			Canon    string
		}
	}
	if err := json.Unmarshal(c, &cs); err != nil {
		fatal("C04 case: %v", err)
	}
	for _, k := range cs.Cases {
		for mode := -1; mode < 2; mode++ {
			in := cs.S
			if mode >= 0 {
				in = altCase(cs.S, mode)
				if in == cs.S {
					continue
				}
			}
			got, err := seqhash.Hash(in, k.Type, k.Circ, k.Ds)
			if !k.Accept {
				if err == nil {
					return bad("Hash(%q,%q,%v,%v) accepted (%s); the specification rejects it", in, k.Type, k.Circ, k.Ds, got)
				}
				continue
			}
			if err != nil {
				return bad("Hash(%q,%q,%v,%v) rejected (%v); the specification accepts it", in, k.Type, k.Circ, k.Ds, err)
			}
			if want := specHash(k.Tag, k.Canon); got != want {
				return bad("Hash(%q,%q,circ=%v,ds=%v) = %s; specification: tag %s, canonical representative %q -> %s", in, k.Type, k.Circ, k.Ds, got, k.Tag, k.Canon, want)
			}
		}
	}
	// corollary of Seqhash!Accepts (every letter must be in the type's alphabet): the same word with one letter
	// replaced by a letter outside ASCII is rejected under every type.  The letters are chosen so that a byte-wise
	// or low-byte comparison would mistake them for alphabet letters (U+0141 -> 'A', U+0154 -> 'T', ...); the two
	// Unicode letters whose upper-case form IS an ASCII letter (U+017F, U+0131) are left out: the case clause
	// leaves them open.
	if len(cs.S) >= 1 && len(cs.Cases) > 0 {
		r := []rune(cs.S)
		h := 0
		for _, x := range r {
			h = h*31 + int(x)
		}
		r[h%len(r)] = nonASCII[h%len(nonASCII)]
		for _, k := range cs.Cases {
			if got, err := seqhash.Hash(string(r), k.Type, k.Circ, k.Ds); err == nil {
				return bad("Hash(%q,%q,%v,%v) accepted (%s) although %q is outside every alphabet", string(r), k.Type, k.Circ, k.Ds, got, string(r[h%len(r)]))
			}
		}
	}
	return ok(len(cs.S) >= 1)
}

var nonASCII = []rune{0x141, 0x154, 0x147, 0x143, 0x14C, 0x142, 0x155, 0xE9, 0xDF, 0x3A9, 0x3B1, 0x4E2D, 0x1F9EC, 0x212A, 0x155, 0x241, 0x1041}

func rcIUPAC(s string) string {
	m := map[byte]byte{'A': 'T', 'T': 'A', 'C': 'G', 'G': 'C', 'R': 'Y', 'Y': 'R', 'S': 'S', 'W': 'W', 'K': 'M', 'M': 'K',
		'B': 'V', 'V': 'B', 'D': 'H', 'H': 'D', 'N': 'N', 'U': 'A'}
	b := make([]byte, len(s))
	for i := 0; i < len(s); i++ {
		c := s[len(s)-1-i]
		lower := c >= 'a' && c <= 'z'
		if lower {
			c -= 32
		}
		x := m[c]
		if lower {
			x += 32
		}
		b[i] = x
	}
	return string(b)
}

func c04Record(tier string, seed int64, emit func(interface{}), prop string) {
	rng := rand.New(rand.NewSource(seed))
	nMeta, maxLen, nSep := 80, 20000, 150
	if tier == "thorough" {
		nMeta, maxLen, nSep = 600, 100000, 2500
	}
	rnd := func(n int, alpha string) string {
		b := make([]byte, n)
		for i := range b {
			b[i] = alpha[rng.Intn(len(alpha))]
		}
		return string(b)
	}
	gen := func(max int, rna bool) string {
		n := 1 + rng.Intn(max)
		if rng.Intn(2) == 0 {
			n = 1 + rng.Intn(60)
		}
		alpha := "ACGT"
		switch rng.Intn(4) {
		case 0:
			alpha = "ACGTRYSWKMBDHVN"
		case 1:
			alpha = "ACGTacgtnN"
		}
		if rna {
			alpha = strings.ReplaceAll(alpha, "T", "U")
			alpha = strings.ReplaceAll(alpha, "t", "u")
		}
		s := rnd(n, alpha)
		switch rng.Intn(5) {
		case 0: // periodic: least rotation is not unique
			u := rnd(1+rng.Intn(5), alpha)
			s = strings.Repeat(u, n/len(u)+1)
		case 1: // reverse-palindromic
			h := rnd(n/2+1, alpha)
			s = h + rcIUPAC(h)
			if rna {
				s = strings.ReplaceAll(strings.ReplaceAll(s, "T", "U"), "t", "u")
			}
		}
		return s
	}
	var nHash int64
	hash := func(s, t string, c, d bool) string {
		// every third call runs on ONE processor: whatever goroutines the library starts internally are then scheduled
		// after their creator moves on (the other extreme from 16 idle cores picking them up at once)
		if atomic.AddInt64(&nHash, 1)%3 == 0 || len(s) > 200000 {
			defer runtime.GOMAXPROCS(runtime.GOMAXPROCS(1))
		}
		h, err := seqhash.Hash(s, t, c, d)
		if err != nil {
			return "error: " + err.Error()
		}
		return h
	}
	if prop == "C04" {
		var prevA, prevT, prevH string
		var prevDs bool
		for i := 0; i < nMeta; i++ {
			for _, rel := range []string{"rot", "rc", "rotrc", "case", "rna"} {
				rna := rel == "rna" || rng.Intn(4) == 0
				a := gen(maxLen, rna)
				huge := (i == 1 || i == 3 || i == 5) && (rel == "rc" || rel == "rotrc")
				if huge { // a bacterial-chromosome-sized ring, both strands: beyond 2^18 bases
					a = gen(263000+rng.Intn(40000), rna)
					for len(a) < 263000 {
						a += a
					}
				}
				typ := "DNA"
				if rna {
					typ = "RNA"
				}
				typb := typ
				circ, ds := rng.Intn(2) == 0, rng.Intn(2) == 0
				off := 0
				var b string
				switch rel {
				case "rot":
					circ = true
					off = rng.Intn(len(a))
					b = a[off:] + a[:off]
				case "rc":
					ds = true
					if huge {
						circ = true
					}
					b = rcIUPAC(a)
				case "rotrc":
					circ, ds = true, true
					off = rng.Intn(len(a))
					b = rcIUPAC(a[off:] + a[:off])
				case "case":
					b = altCase(strings.ToUpper(a), rng.Intn(2))
				case "rna":
					typb = "DNA"
					b = strings.ReplaceAll(strings.ReplaceAll(a, "U", "T"), "u", "t")
				}
				var ha, hb string
				if i%2 == 0 || len(a) > 200000 {
					ha, hb = hash(a, typ, circ, ds), hash(b, typb, circ, ds)
				} else {
					// the two calls run at the same time, together with a repeat of an earlier call: the function is
					// pure, so overlapping calls must not disturb one another (`poly hash a b c` hashes concurrently)
					var again string
					var wg sync.WaitGroup
					wg.Add(3)
					go func() { defer wg.Done(); ha = hash(a, typ, circ, ds) }()
					go func() { defer wg.Done(); hb = hash(b, typb, circ, ds) }()
					go func() { defer wg.Done(); again = hash(prevA, prevT, true, prevDs) }()
					wg.Wait()
					if prevA != "" {
						emit(map[string]interface{}{"k": "meta", "rel": "case", "a": prevA, "b": prevA, "off": 0, "type": prevT, "typeb": prevT,
							"circ": true, "ds": prevDs, "ha": prevH, "hb": again})
					}
				}
				if len(a) > 0 {
					prevA, prevT, prevDs = a, typ, ds
					prevH = hash(a, typ, true, ds)
				}
				emit(map[string]interface{}{"k": "meta", "rel": rel, "a": a, "b": b, "off": off, "type": typ, "typeb": typb,
					"circ": circ, "ds": ds, "ha": ha, "hb": hb})
			}
		}
		return
	}
	// C05: near-miss pairs (<= 200 letters): the identifiers must be equal exactly when the molecules are
	for i := 0; i < nSep; i++ {
		rna := rng.Intn(4) == 0
		a := gen(200, rna)
		typ := "DNA"
		if rna {
			typ = "RNA"
		}
		circ, ds := rng.Intn(2) == 0, rng.Intn(2) == 0
		off := rng.Intn(len(a))
		var b string
		switch rng.Intn(7) {
		case 0:
			b = a[off:] + a[:off] // same molecule only if circular
		case 1:
			b = rcIUPAC(a) // same molecule only if double stranded
		case 2:
			b = rcIUPAC(a[off:] + a[:off])
		case 3: // point mutation
			x := []byte(a)
			x[off] = "ACGT"[rng.Intn(4)]
			b = string(x)
		case 4: // reversed, not complemented
			x := []byte(a)
			for l, r := 0, len(x)-1; l < r; l, r = l+1, r-1 {
				x[l], x[r] = x[r], x[l]
			}
			b = string(x)
		case 5: // complemented, not reversed
			x := []byte(rcIUPAC(a))
			for l, r := 0, len(x)-1; l < r; l, r = l+1, r-1 {
				x[l], x[r] = x[r], x[l]
			}
			b = string(x)
		default: // one letter dropped or doubled
			if len(a) > 1 && rng.Intn(2) == 0 {
				b = a[:off] + a[off+1:]
			} else {
				b = a[:off] + a[off:off+1] + a[off:]
			}
		}
		emit(map[string]interface{}{"k": "sep", "a": a, "b": b, "type": typ, "circ": circ, "ds": ds,
			"ha": hash(a, typ, circ, ds), "hb": hash(b, typ, circ, ds)})
	}
	// published form on long circular molecules: the canonical representative is found by brute force here and
	// verified by TLC (C04_Trace!JudgeForm); the digest is computed by blake3ref
	nForm := 6
	if tier == "thorough" {
		nForm = 40
	}
	for i := 0; i < nForm; i++ {
		n := 300 + rng.Intn(6000)
		if i%2 == 0 {
			n = 4096 + rng.Intn(3000)
		}
		a := rnd(n, "ACGT")
		ds := rng.Intn(3) > 0
		least := func(x string) (string, int) {
			d := x + x
			best := 0
			for k := 1; k < len(x); k++ {
				if d[k:k+len(x)] < d[best:best+len(x)] {
					best = k
				}
			}
			return d[best : best+len(x)], best
		}
		cf, fi := least(a)
		cr, ri := least(rcIUPAC(a))
		canon, idx, strand, other, oidx := cf, fi, "fwd", cr, ri
		if ds && cr < cf {
			canon, idx, strand, other, oidx = cr, ri, "rc", cf, fi
		}
		h := hash(a, "DNA", true, ds)
		tag := "DCS"
		if ds {
			tag = "DCD"
		}
		emit(map[string]interface{}{"k": "form", "a": a, "type": "DNA", "circ": true, "ds": ds, "canon": canon, "idx": idx, "strand": strand,
			"other": other, "oidx": oidx, "h": h, "digestok": h == specHash(tag, canon)})
	}
	// rejection clause on longer inputs: one bad letter somewhere, unknown types, double-stranded proteins
	for i := 0; i < nSep; i++ {
		typ := []string{"DNA", "RNA", "PROTEIN", "PROTEIN", "dna", "Rna", "protein", ""}[rng.Intn(8)]
		alpha := "ATUGCYRSWKMBDHVNZ"
		if strings.EqualFold(typ, "PROTEIN") {
			alpha = "ACDEFGHIKLMNPQRSTVWYUO*BXZ"
		}
		s := rnd(1+rng.Intn(300), alpha)
		switch rng.Intn(4) {
		case 0, 1:
			x := []byte(s)
			x[rng.Intn(len(x))] = byte(33 + rng.Intn(94))
			s = string(x)
		case 2: // a letter outside ASCII (TLC sees it as one character outside every alphabet)
			x := []rune(s)
			x[rng.Intn(len(x))] = nonASCII[rng.Intn(len(nonASCII))]
			s = string(x)
		}
		if rng.Intn(3) == 0 {
			s = strings.ToLower(s)
		}
		circ, ds := rng.Intn(2) == 0, rng.Intn(3) == 0
		_, err := seqhash.Hash(s, typ, circ, ds)
		emit(map[string]interface{}{"k": "rej", "a": s, "type": typ, "circ": circ, "ds": ds, "err": err != nil})
	}
}
