package main

// Directed schedules for C13 (spec/C13_Sched.tla): the real fasta.ParseConcurrent is driven through a
// TLC-generated schedule by the two things a caller controls - the io.Reader that feeds it (one line per Read,
// handed out only when the schedule says so) and the consumer of the channel.  The verdict comes only from what
// the property states (records, order, closed exactly once, no hang); a step the real code does not follow
// within a short wait makes the run "unsteered" (all gates are opened), never a violation.

import (
	"encoding/json"
	"fmt"
	"io"
	"os"
	"runtime"
	"sync/atomic"
	"time"

	"github.com/TimothyStiles/poly/io/fasta"
)

type gateReader struct {
	chunks [][]byte      // one line (with its newline) per chunk
	asked  chan struct{} // one token per Read call that found the gate shut
	permit chan struct{} // one token per chunk (or the end of input) the controller lets through
	open   atomic.Bool   // gates opened for good (unsteered / end of schedule)
	next   int
	mid    bool
	// gateEOF: the end of input is a step of its own (C13); otherwise it follows the last piece at once (C20)
	gateEOF bool
}

func (g *gateReader) Read(p []byte) (int, error) {
	if g.next >= len(g.chunks) && !g.gateEOF {
		return 0, io.EOF
	}
	if !g.mid && !g.open.Load() {
		select {
		case g.asked <- struct{}{}:
		default:
		}
		<-g.permit
	}
	if g.next >= len(g.chunks) {
		return 0, io.EOF
	}
	c := g.chunks[g.next]
	n := copy(p, c)
	if n < len(c) {
		g.chunks[g.next] = c[n:]
		g.mid = true // the rest of this piece follows without a gate
	} else {
		g.next++
		g.mid = false
	}
	return n, nil
}

// release opens every gate: the producer free-runs from here
func (g *gateReader) release() {
	if g.open.CompareAndSwap(false, true) {
		close(g.permit)
	}
}

const softWait = 500 * time.Millisecond

// steerStats: when an implementation plainly does not follow the schedules (none of the first cases could be
// steered) the remaining cases stop waiting for it - they are judged on their outcome all the same
type steerStats struct{ steered, unsteered atomic.Int64 }

func (s *steerStats) wait() time.Duration {
	if s.steered.Load() == 0 && s.unsteered.Load() >= 16 {
		return 5 * time.Millisecond
	}
	return softWait
}
func (s *steerStats) note(ok bool) {
	if ok {
		s.steered.Add(1)
	} else {
		s.unsteered.Add(1)
	}
}

var c13dStats, c20dStats, c09dStats steerStats

func c13dReplay(c json.RawMessage) Verdict {
	softWait := c13dStats.wait()
	var cs struct {
		Lines []string
		Cap   int
		Sched []struct {
			Op, Pc string
			N      int
		}
		Records []fastaRec
	}
	if err := json.Unmarshal(c, &cs); err != nil {
		fatal("C13 schedule: %v", err)
	}
	if cs.Records == nil {
		cs.Records = []fastaRec{}
	}
	g := &gateReader{gateEOF: true, asked: make(chan struct{}, 4), permit: make(chan struct{}, len(cs.Lines)+8)}
	for _, l := range cs.Lines {
		g.chunks = append(g.chunks, []byte(l+"\n"))
	}
	ch := make(chan fasta.Fasta, cs.Cap)
	pdone := make(chan string, 1)
	go func() {
		defer func() {
			if x := recover(); x != nil {
				pdone <- fmt.Sprint(x)
				return
			}
			pdone <- ""
		}()
		fasta.ParseConcurrent(g, ch)
	}()
	got := []fastaRec{}
	closes := 0
	steered := true
	where := ""
	unsteer := func() {
		steered = false
		g.release()
		if os.Getenv("C13D_DEBUG") != "" {
			fmt.Fprintf(os.Stderr, "unsteered at %s: cap %d lines %q sched %v\n", where, cs.Cap, cs.Lines, opsOf(cs.Sched))
		}
	}
	recv := func(wait time.Duration) (more bool, timedOut bool) {
		select {
		case f, m := <-ch:
			if m {
				got = append(got, fastaRec{f.Name, f.Sequence})
			} else {
				closes++
			}
			return m, false
		case <-time.After(wait):
			return false, true
		}
	}
	producerMsg, producerBack := "", false
	atRead := false // the producer is known to be blocked in Read at the shut gate
	for si, st := range cs.Sched {
		if !steered || closes > 0 {
			break
		}
		where = fmt.Sprintf("step %d (%s from %s)", si, st.Op, st.Pc)
		// wait until the producer is quiescent in the state the schedule step starts from
		switch st.Pc {
		case "scan":
			if !atRead {
				select {
				case <-g.asked:
					atRead = true
				case <-time.After(softWait):
					unsteer()
				}
			}
		case "send", "sendlast":
			dl := time.Now().Add(softWait)
			for cs.Cap > 0 && len(ch) < cs.Cap && time.Now().Before(dl) {
				runtime.Gosched()
			}
			for i := 0; i < 20; i++ {
				runtime.Gosched()
			}
		case "done":
			if !producerBack {
				select {
				case producerMsg = <-pdone:
					producerBack = true
				case <-time.After(softWait):
					unsteer()
				}
			}
		}
		if !steered {
			break
		}
		switch st.Op {
		case "line", "eof":
			atRead = false
			g.permit <- struct{}{}
		case "recv", "rv", "seeclosed":
			if _, to := recv(softWait); to {
				unsteer()
			}
		}
	}
	c13dStats.note(steered)
	g.release()
	// whatever is left: drain to the close under a generous deadline
	for closes == 0 {
		if _, to := recv(20 * time.Second); to {
			return bad("cap %d schedule %v: the parser neither delivered nor closed within 20 s after %d records (lines %q)", cs.Cap, opsOf(cs.Sched), len(got), cs.Lines)
		}
	}
	if !producerBack {
		select {
		case producerMsg = <-pdone:
		case <-time.After(20 * time.Second):
			return bad("cap %d schedule %v: ParseConcurrent did not return within 20 s of closing its channel", cs.Cap, opsOf(cs.Sched))
		}
	}
	if producerMsg != "" {
		return bad("cap %d schedule %v: ParseConcurrent panics: %s", cs.Cap, opsOf(cs.Sched), producerMsg)
	}
	if !sameRecs(got, cs.Records) {
		return bad("cap %d schedule %v: received %v, the file states %v (lines %q)", cs.Cap, opsOf(cs.Sched), got, cs.Records, cs.Lines)
	}
	return ok(steered)
}

func opsOf(s []struct {
	Op, Pc string
	N      int
}) []string {
	var out []string
	for _, x := range s {
		out = append(out, x.Op)
	}
	return out
}

func init() {
	registry["C13D"] = &Prop{Replay: c13dReplay, Finish: func() {
		fmt.Fprintf(os.Stderr, "C13 directed schedules: %d followed step by step, %d unsteered (judged on the outcome only)\n", c13dStats.steered.Load(), c13dStats.unsteered.Load())
	}}
}
