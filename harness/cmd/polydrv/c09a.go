package main

// C09 at the level of the actions of spec/LigationConc.tla.
//
// record C09A: free-running clone.CircularLigate on fragments built from abstract pools; the hook events of
//   every run, with the abstract pool in the begin line, are validated by LigationConc_Trace (every run must be
//   a behaviour of LigationConc; TLC infers which goroutine each event belongs to).
// replay C09D (c09d.go): TLC-generated schedules of LigationConc, stepped through the real goroutines with the
//   hooks as gates.

import (
	"math/rand"
	"os"
	"runtime"
	"sync"
	"syscall"
	"time"

	"github.com/TimothyStiles/poly/clone"
)

const c09aM = 4 // overhang symbols 1..4 and their reverse complements 5..8 (baseOverhangs)

type absPool []absFrag

// fragsOf builds the fragments of an abstract pool: unique bodies, overhang DNA by symbol
func fragsOf(pool absPool, m int, rng *rand.Rand) (frags []clone.Fragment, bodies, rcbodies []string) {
	seen := map[string]bool{}
	for range pool {
		var body string
		for {
			body = randDNA(rng, 6+rng.Intn(9))
			if !seen[body] && !seen[rcDNA(body)] && body != rcDNA(body) {
				break
			}
		}
		seen[body] = true
		bodies = append(bodies, body)
		rcbodies = append(rcbodies, rcDNA(body))
	}
	for i, f := range pool {
		frags = append(frags, clone.Fragment{Sequence: bodies[i], ForwardOverhang: overhangDNA(f.F, m), ReverseOverhang: overhangDNA(f.R, m)})
	}
	return
}

func ovTable() []string {
	var t []string
	for o := 1; o <= 2*c09aM; o++ {
		t = append(t, overhangDNA(o, c09aM))
	}
	return t
}

func co(o int) int {
	if o <= c09aM {
		return o + c09aM
	}
	return o - c09aM
}

// randPool: a random abstract pool over few junction symbols (so that rings, libraries, decoys, flipped parts
// and cycles that exclude the seed all occur), small enough for its goroutine tree to stay small
func randPool(rng *rand.Rand) absPool {
	nsym := 1 + rng.Intn(3)
	syms := rng.Perm(c09aM)[:nsym]
	pick := func() int {
		o := syms[rng.Intn(nsym)] + 1
		if rng.Intn(4) == 0 {
			o = co(o)
		}
		return o
	}
	n := 1 + rng.Intn(4)
	var p absPool
	if rng.Intn(2) == 0 { // a designed ring of j junctions, some parts supplied flipped, plus extras
		j := 1 + rng.Intn(3)
		ring := rng.Perm(c09aM)[:j]
		for i := 0; i < j; i++ {
			f, r := ring[i]+1, ring[(i+1)%j]+1
			if rng.Intn(3) == 0 {
				f, r = co(r), co(f)
			}
			p = append(p, absFrag{F: f, R: r})
		}
		for len(p) < j+rng.Intn(2) {
			p = append(p, absFrag{F: pick(), R: pick()})
		}
		rng.Shuffle(len(p), func(a, b int) { p[a], p[b] = p[b], p[a] })
		return p
	}
	for i := 0; i < n; i++ {
		p = append(p, absFrag{F: pick(), R: pick()})
	}
	return p
}

func limitMemory() {
	if os.Getenv("POLYDRV_NO_RLIMIT") == "" {
		lim := syscall.Rlimit{Cur: 8 << 30, Max: 8 << 30}
		_ = syscall.Setrlimit(syscall.RLIMIT_AS, &lim)
	}
}

func c09aRecord(tier string, seed int64, emit func(interface{})) {
	limitMemory()
	rng := rand.New(rand.NewSource(seed))
	n := 150
	if tier == "thorough" {
		n = 1500
	}
	defer func() { clone.VerifHook = nil; runtime.GOMAXPROCS(runtime.NumCPU()) }()
	hooked := false
	for i := 0; i < n; i++ {
		pool := randPool(rng)
		frags, bodies, rcbodies := fragsOf(pool, c09aM, rng)
		var mu sync.Mutex
		var events []c09Event
		y := uint64(seed)*2654435761 + uint64(i)
		clone.VerifHook = func(ev, a, b string) {
			mu.Lock()
			y = y*6364136223846793005 + 1442695040888963407
			r := y >> 33
			events = append(events, c09Event{Ev: ev, A: a, B: b})
			mu.Unlock()
			switch {
			case r%3 == 0:
				runtime.Gosched()
			case r%29 == 0:
				time.Sleep(20 * time.Microsecond)
			}
		}
		runtime.GOMAXPROCS([]int{1, 2, 16}[i%3])
		done := make(chan []clone.Part, 1)
		go func() { done <- clone.CircularLigate(frags) }()
		var res []clone.Part
		select {
		case res = <-done:
		case <-time.After(20 * time.Second):
			emit(map[string]interface{}{"ev": "begin", "pool": pool, "ov": ovTable(), "body": bodies, "rcbody": rcbodies})
			emit(map[string]interface{}{"ev": "noreturn", "a": "", "b": ""})
			emit(map[string]interface{}{"ev": "end"})
			return // the goroutines of that call are still running: stop here
		}
		mu.Lock()
		evs := append([]c09Event(nil), events...)
		mu.Unlock()
		if len(evs) == 0 {
			continue // this implementation does not call the hooks: nothing to validate at this level
		}
		hooked = true
		if len(evs) > 400 {
			continue // keep the inference cheap: the big pools are covered by the result-level stages
		}
		emit(map[string]interface{}{"ev": "begin", "pool": pool, "ov": ovTable(), "body": bodies, "rcbody": rcbodies})
		for _, e := range evs {
			emit(map[string]interface{}{"ev": e.Ev, "a": e.A, "b": e.B})
		}
		out := []string{}
		for _, p := range res {
			out = append(out, p.Sequence)
		}
		emit(map[string]interface{}{"ev": "return", "a": "", "b": "", "result": out})
	}
	if hooked {
		emit(map[string]interface{}{"ev": "end"})
	}
}

func init() {
	registry["C09A"] = &Prop{Record: c09aRecord}
}
