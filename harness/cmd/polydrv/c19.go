package main

import (
	"encoding/json"
	"math"
	"math/rand"
	"strconv"
	"strings"

	"github.com/TimothyStiles/poly/primers"
)

var c19C = []string{"1e-9", "1e-8", "1e-7", "5e-7", "1e-6", "1e-5", "1e-4", "1e-3"}
var c19Na = []string{"0.001", "0.005", "0.01", "0.05", "0.1", "0.5", "1"}
var c19Mg = []string{"0", "0.001", "0.0015", "0.01", "0.1"}

func pf(s string) float64 { v, _ := strconv.ParseFloat(s, 64); return v }
func clampInt(x float64) int {
	if math.IsNaN(x) {
		return -2000000000
	}
	if x > 2e9 {
		return 2000000000
	}
	if x < -2e9 {
		return -2000000000
	}
	return int(math.Round(x))
}

func mixCase(s string, mode int) string {
	b := []byte(strings.ToUpper(s))
	for i := range b {
		if mode == 0 || (i*7+mode)%3 == 0 {
			b[i] += 32
		}
	}
	return string(b)
}

// caseBlind: identical results (bit for bit) in upper, lower and mixed case
func caseBlind(s string, c, na, mg float64) bool {
	t0, h0, s0 := primers.SantaLucia(strings.ToUpper(s), c, na, mg)
	for mode := 0; mode < 3; mode++ {
		t, h, e := primers.SantaLucia(mixCase(s, mode), c, na, mg)
		if t != t0 || h != h0 || e != s0 {
			return false
		}
	}
	return primers.MarmurDoty(mixCase(s, 1)) == primers.MarmurDoty(strings.ToUpper(s)) &&
		primers.MeltingTemp(mixCase(s, 2)) == primers.MeltingTemp(strings.ToUpper(s))
}

func defaultHelperOK(s string) bool {
	t, _, _ := primers.SantaLucia(s, 500e-9, 50e-3, 0)
	return primers.MeltingTemp(s) == t
}

func c19Replay(c json.RawMessage) Verdict {
	var cs struct {
		S    string
		Dh10 int
		Self bool
		Md   int
		Pts  []struct {
			C, Na, Mg   string
			Ds3, D3, Tm int
		}
	}
	if err := json.Unmarshal(c, &cs); err != nil {
		fatal("C19 case: %v", err)
	}
	n := len(cs.S)
	for _, p := range cs.Pts {
		C, na, mg := pf(p.C), pf(p.Na), pf(p.Mg)
		tm, dh, ds := primers.SantaLucia(cs.S, C, na, mg)
		if int(math.Round(dh*10)) != cs.Dh10 {
			return bad("SantaLucia(%s): dH = %.3f, specification %.1f (initiation + nearest neighbours + 3' terminal A/T)", cs.S, dh, float64(cs.Dh10)/10)
		}
		if math.Abs(ds*1000-float64(p.Ds3)) > 10+0.4*float64(n-1)+1 {
			return bad("SantaLucia(%s, Na %s, Mg %s): dS = %.4f, specification %.3f", cs.S, p.Na, p.Mg, ds, float64(p.Ds3)/1000)
		}
		if p.D3 != 0 && math.Abs(tm*100-float64(p.Tm)) > 5 {
			return bad("SantaLucia(%s, C %s, Na %s, Mg %s): Tm = %.4f, specification %.2f (f = %d)", cs.S, p.C, p.Na, p.Mg, tm, float64(p.Tm)/100, map[bool]int{true: 1, false: 4}[cs.Self])
		}
		if !caseBlind(cs.S, C, na, mg) {
			return bad("SantaLucia(%s): results depend on letter case", cs.S)
		}
	}
	if got := primers.MarmurDoty(cs.S); got != float64(cs.Md) {
		return bad("MarmurDoty(%s) = %v, specification %d", cs.S, got, cs.Md)
	}
	if !defaultHelperOK(cs.S) {
		return bad("MeltingTemp(%s) differs from SantaLucia(%s, 500 nM, 50 mM, 0)", cs.S, cs.S)
	}
	return ok(true)
}

func c19Record(tier string, seed int64, emit func(interface{})) {
	rng := rand.New(rand.NewSource(seed))
	n := 250
	if tier == "thorough" {
		n = 4000
	}
	g := 0
	for i := 0; i < n; i++ {
		m := 2 + rng.Intn(199)
		if rng.Intn(2) == 0 {
			m = 9 + rng.Intn(40)
		}
		b := make([]byte, m)
		for j := range b {
			b[j] = "ACGTacgt"[rng.Intn(8)]
		}
		s := string(b)
		if i%10 == 3 { // low-complexity oligos to the upper end of the range: one base or one short repeat dominates
			m = 120 + rng.Intn(81)
			unit := []string{"A", "T", "G", "C", "a", "AT", "GC", "AAT", "GGC", "ca"}[rng.Intn(10)]
			lead := randDNA(rng, rng.Intn(8))
			s = lead + strings.Repeat(unit, m/len(unit))
			if len(s) > m {
				s = s[:m]
			}
			if tail := randDNA(rng, rng.Intn(12)); len(s)+len(tail) <= 200 {
				s += tail
			}
		}
		if i%10 == 7 { // 65..200 nt: the outer arms are reverse complements of each other, the middle is not
			arm := randDNA(rng, 32+rng.Intn(20))
			var mid string
			for {
				mid = randDNA(rng, 1+rng.Intn(200-2*len(arm)))
				if mid != rcDNA(mid) {
					break
				}
			}
			s = arm + mid + rcDNA(arm)
			m = len(s)
		}
		if rng.Intn(6) == 0 { // self-complementary (in mixed case)
			h := s[:m/2]
			s = h + mixCase(rcDNA(strings.ToUpper(h)), rng.Intn(3))
		}
		ci, ni, mi := rng.Intn(len(c19C)), rng.Intn(len(c19Na)), rng.Intn(len(c19Mg))
		C, na, mg := pf(c19C[ci]), pf(c19Na[ni]), pf(c19Mg[mi])
		tm, dh, ds := primers.SantaLucia(s, C, na, mg)
		md := primers.MarmurDoty(s)
		emit(map[string]interface{}{"k": "grid", "s": s, "ci": ci + 1, "ni": ni + 1, "mi": mi + 1,
			"dh10": clampInt(dh * 10), "ds3": clampInt(ds * 1000), "tmc": clampInt(tm * 100),
			"md": clampInt(md), "mdok": md == math.Round(md), "defok": defaultHelperOK(s), "caseok": caseBlind(s, C, na, mg)})
		// a sweep: one concentration increases through off-grid values
		g++
		axis := rng.Intn(4) // 3: trace magnesium, from none at all through fractions of a micromole per litre
		C, na, mg = math.Pow(10, -9+6*rng.Float64()), math.Pow(10, -3+3*rng.Float64()), 0.1*rng.Float64()*float64(rng.Intn(2))
		steps := 6
		base := 1.05 + rng.Float64()*3
		for r := 0; r < steps; r++ {
			c2, n2, m2 := C, na, mg
			f := math.Pow(base, float64(r))
			switch axis {
			case 0:
				c2 = math.Min(C*f, 1e-3)
			case 1:
				n2 = math.Min(na*f, 1)
			case 2:
				m2 = math.Min(0.0001*f+mg*0, 0.1)
			default:
				m2 = []float64{0, 2e-7, 5e-7, 9e-7, 2e-6, 1e-5}[r]
			}
			if r > 0 && ((axis == 0 && c2 >= 1e-3) || (axis == 1 && n2 >= 1) || (axis == 2 && m2 >= 0.1)) {
				break
			}
			t, h, _ := primers.SantaLucia(s, c2, n2, m2)
			emit(map[string]interface{}{"k": "sweep", "g": g, "rank": r, "dh10": clampInt(h * 10), "tmu": clampInt(t * 1e6)})
		}
	}
}

func init() {
	registry["C19"] = &Prop{Replay: c19Replay, Record: c19Record}
}
