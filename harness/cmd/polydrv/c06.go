package main

import (
	"encoding/json"
	"math/rand"
	"sort"
	"strings"

	"github.com/TimothyStiles/poly/transform/codon"
)

var tableIds = []int{1, 2, 3, 4, 5, 6, 9, 10, 11, 12, 13, 14, 16, 21, 22, 23, 24, 25, 26, 27, 28, 29, 30, 31, 33}

func sortedSet(x []string) ([]string, bool) {
	s := append([]string(nil), x...)
	sort.Strings(s)
	for i := 1; i < len(s); i++ {
		if s[i] == s[i-1] {
			return s, false
		}
	}
	return s, true
}

// translate returns "<error: ...>" on error so that it can be compared / logged as a string
func translate(s string, t codon.Table) string {
	p, err := codon.Translate(s, t)
	if err != nil {
		if s == "" {
			return "" // the empty sequence: an error or an empty translation - the property does not say
		}
		return "<error: " + err.Error() + ">"
	}
	return p
}

func init() {
	registry["C06"] = &Prop{
		Replay: func(c json.RawMessage) Verdict {
			var cs struct {
				K, Codon, Aa, S, P string
				Id                 int
				Starts, Stops      []string
			}
			if err := json.Unmarshal(c, &cs); err != nil {
				fatal("C06 case: %v", err)
			}
			// loading the codon-usage table of an organism with ANOTHER genetic code (from JSON text) is no business of
			// the default tables: done before every look-up
			if other := tableIds[(cs.Id*7+len(cs.S)+len(cs.Codon))%len(tableIds)]; other != cs.Id {
				b, _ := json.Marshal(codon.GetCodonTable(other))
				_ = codon.ParseCodonJSON(b)
				// ... and neither is combining this code's table with another code's (in either operand order)
				// (what those calls return or whether they refuse tables of two codes is C18's business, not checked here)
				quietly := func(f func()) { defer func() { _ = recover() }(); f() }
				quietly(func() {
					_, _ = codon.CompromiseCodonTable(codon.GetCodonTable(cs.Id), codon.GetCodonTable(other), 0.1)
				})
				quietly(func() {
					_, _ = codon.CompromiseCodonTable(codon.GetCodonTable(other), codon.GetCodonTable(cs.Id), 0.1)
				})
				quietly(func() { _ = codon.AddCodonTable(codon.GetCodonTable(cs.Id), codon.GetCodonTable(other)) })
				// ... nor is training this code's usage weights on a gene that lacks some amino acids (or everything):
				// which amino acid a codon stands for does not depend on how often it is used
				quietly(func() {
					_ = codon.GetCodonTable(cs.Id).OptimizeTable([]string{"ATGGCTAAAGGTGAACTGGCTAAATAA", "ATGAAATGA", "NNN", "ATGTGGTGTCATTAG"}[(cs.Id+len(cs.S)+len(cs.Codon))%4])
				})
			}
			t := codon.GetCodonTable(cs.Id)
			switch cs.K {
			case "cell":
				lc := strings.ToLower(cs.Codon)
				for _, in := range []string{cs.Codon, lc, cs.Codon[:1] + lc[1:], lc[:2] + cs.Codon[2:]} {
					if got := translate(in, t); got != cs.Aa {
						return bad("table %d: Translate(%q) = %q, NCBI assigns %q", cs.Id, in, got, cs.Aa)
					}
				}
			case "lists":
				gs, ok1 := sortedSet(t.StartCodons)
				ws, _ := sortedSet(cs.Starts)
				if !ok1 || strings.Join(gs, ",") != strings.Join(ws, ",") {
					return bad("table %d: start codons %v, NCBI lists %v", cs.Id, gs, ws)
				}
				gp, ok2 := sortedSet(t.StopCodons)
				wp, _ := sortedSet(cs.Stops)
				if !ok2 || strings.Join(gp, ",") != strings.Join(wp, ",") {
					return bad("table %d: stop codons %v, NCBI lists %v", cs.Id, gp, wp)
				}
			case "tr":
				if got := translate(cs.S, t); got != cs.P {
					return bad("table %d: Translate(%q) = %q, specification %q", cs.Id, cs.S, got, cs.P)
				}
				// the same genetic code laid out in another order (amino acids and codons permuted) reads the same
				if got := translate(cs.S, shuffleTable(t, int64(len(cs.S)*31+cs.Id))); got != cs.P {
					return bad("table %d with its amino acids and codons listed in another order: Translate(%q) = %q, specification %q", cs.Id, cs.S, got, cs.P)
				}
			}
			return ok(true)
		},
		Record: func(tier string, seed int64, emit func(interface{})) {
			rng := rand.New(rand.NewSource(seed))
			rounds := 2
			if tier == "thorough" {
				rounds = 30
			}
			for r := 0; r < rounds; r++ {
				for _, id := range tableIds {
					n := 1 + rng.Intn(3000)
					if rng.Intn(2) == 0 {
						n = 1 + rng.Intn(300)
					}
					if id == tableIds[r%len(tableIds)] { // one gene-cluster-sized input per round: beyond 2^16 letters
						n = 65530 + rng.Intn(140000)
					}
					b := make([]byte, n)
					for i := range b {
						b[i] = "ACGTacgt"[rng.Intn(8)]
					}
					s := string(b)
					t := codon.GetCodonTable(id)
					splits := []map[string]interface{}{}
					if n <= 300 { // every codon-boundary split point
						for at := 0; at <= n; at += 3 {
							splits = append(splits, map[string]interface{}{"at": at, "pa": translate(s[:at], t), "pb": translate(s[at:], t)})
						}
					} else {
						for j := 0; j < 3; j++ {
							at := 3 * rng.Intn(n/3+1)
							splits = append(splits, map[string]interface{}{"at": at, "pa": translate(s[:at], t), "pb": translate(s[at:], t)})
						}
					}
					emit(map[string]interface{}{"k": "tr", "id": id, "s": s, "p": translate(s, t), "splits": splits})
				}
			}
		},
	}
}
