package main

// Directed schedules for C20 (spec/C20_Sched.tla): uniprot.Parse is driven through a TLC-generated schedule by
// the io.Reader behind its XML decoder (one piece of the document per Read) and by the consumer of its two
// channels.  As in c13d.go the verdict comes from what the property states only; a step the real code does not
// follow within a short wait opens all gates and the run is judged on its outcome.

import (
	"encoding/json"
	"fmt"
	"math/rand"
	"os"
	"runtime"
	"time"

	"github.com/TimothyStiles/poly/io/uniprot"
)

type c20Step struct {
	Op, Pc, Tok string
	Ne, Nr      int
}

func c20dReplay(c json.RawMessage) Verdict {
	softWait := c20dStats.wait()
	var cs struct {
		K                int
		Damaged, Partial bool
		Disc             string
		Ce, Cr           int
		Sched            []c20Step
	}
	if err := json.Unmarshal(c, &cs); err != nil {
		fatal("C20 schedule: %v", err)
	}
	ops := []string{}
	for _, s := range cs.Sched {
		ops = append(ops, s.Op)
	}
	allSteered := true
	for variant := 0; variant < 2; variant++ { // damage as truncation / as inserted garbage
		if !cs.Damaged && variant == 1 {
			break
		}
		rng := rand.New(rand.NewSource(int64(cs.K*1000 + cs.Ce*100 + cs.Cr*10 + len(cs.Disc) + variant)))
		n := cs.K
		if cs.Partial || (cs.Damaged && rng.Intn(2) == 0) {
			n = cs.K + 1 + rng.Intn(2)
		}
		d := genUniDoc(rng, n)
		// the pieces the reader hands out: up to the end of each entry before the damage, then the rest
		var pieces [][]byte
		prev := 0
		for i := 0; i < cs.K; i++ {
			pieces = append(pieces, []byte(d.text[prev:d.ends[i]]))
			prev = d.ends[i]
		}
		what := "well-formed"
		switch {
		case !cs.Damaged:
			pieces = append(pieces, []byte(d.text[prev:]))
		default:
			at := prev
			switch {
			case cs.Partial:
				at = d.starts[cs.K] + 1 + rng.Intn(d.ends[cs.K]-d.starts[cs.K]-2)
			case cs.K == 0:
				at = d.rootStart
			}
			if variant == 0 {
				what = fmt.Sprintf("truncated at byte %d", at)
				if at > prev {
					pieces = append(pieces, []byte(d.text[prev:at]))
				} else {
					pieces = append(pieces, []byte{}) // nothing more: the end of input is the damage
				}
			} else {
				what = fmt.Sprintf("garbage inserted at byte %d", at)
				pieces = append(pieces, []byte(d.text[prev:at]+uniGarbage+d.text[at:]))
			}
		}
		g := &gateReader{asked: make(chan struct{}, 4), permit: make(chan struct{}, len(pieces)+8)}
		for _, p := range pieces {
			if len(p) > 0 {
				g.chunks = append(g.chunks, p)
			}
		}
		emptyLast := len(pieces) > 0 && len(pieces[len(pieces)-1]) == 0
		g.gateEOF = emptyLast // then the end of input itself is the last fed piece
		entries := make(chan uniprot.Entry, cs.Ce)
		errs := make(chan error, cs.Cr)
		pdone := make(chan string, 1)
		go func() {
			defer func() {
				if x := recover(); x != nil {
					pdone <- fmt.Sprint(x)
					return
				}
				pdone <- ""
			}()
			uniprot.Parse(g, entries, errs)
		}()
		var got []int
		nerr := 0
		closedE, closedR := false, false
		match := func(e uniprot.Entry) int {
			j := len(got)
			if j < len(d.entries) {
				w := d.entries[j]
				if sameStrs(e.Accession, w.Acc) && sameStrs(e.Name, w.Name) && e.Sequence.Value == w.Seq {
					return j + 1
				}
			}
			return 0
		}
		// recvE / recvR: one receive on that channel, false on time-out
		recvE := func(wait time.Duration) bool {
			select {
			case e, more := <-entries:
				if more {
					got = append(got, match(e))
				} else {
					closedE = true
				}
				return true
			case <-time.After(wait):
				return false
			}
		}
		recvR := func(wait time.Duration) bool {
			select {
			case _, more := <-errs:
				if more {
					nerr++
				} else {
					closedR = true
				}
				return true
			case <-time.After(wait):
				return false
			}
		}
		steered, atRead, back, pmsg := true, false, false, ""
		for _, st := range cs.Sched {
			if !steered {
				break
			}
			switch st.Pc {
			case "token":
				if !atRead {
					select {
					case <-g.asked:
						atRead = true
					case <-time.After(softWait):
						steered = false
					}
				}
			case "sendentry", "senderr", "senderr_partial":
				dl := time.Now().Add(softWait)
				for st.Pc == "sendentry" && cs.Ce > 0 && len(entries) < cs.Ce && time.Now().Before(dl) {
					runtime.Gosched()
				}
				for st.Pc != "sendentry" && cs.Cr > 0 && len(errs) < cs.Cr && time.Now().Before(dl) {
					runtime.Gosched()
				}
				for i := 0; i < 20; i++ {
					runtime.Gosched()
				}
			case "done":
				if !back {
					select {
					case pmsg = <-pdone:
						back = true
					case <-time.After(softWait):
						steered = false
					}
				}
			}
			if !steered {
				break
			}
			switch st.Op {
			case "feed":
				atRead = false
				g.permit <- struct{}{}
			case "recvE", "rvE":
				steered = !closedE && recvE(softWait)
			case "recvR", "rvR":
				steered = !closedR && recvR(softWait)
			case "seeE":
				steered = !closedE && recvE(softWait)
			case "seeAll":
				if !closedE {
					steered = recvE(softWait)
				}
				if steered && !closedR {
					steered = recvR(softWait)
				}
			}
		}
		c20dStats.note(steered)
		g.release()
		ctx := fmt.Sprintf("%d entries before the damage, %s, consumer %s, capacities %d/%d, schedule %v", cs.K, what, cs.Disc, cs.Ce, cs.Cr, ops)
		// whatever is left, with the consumer's own discipline, under a generous deadline
		deadline := time.After(20 * time.Second)
		for !closedE || !closedR {
			ec, rc := entries, errs
			if closedE {
				ec = nil
			}
			if closedR || (cs.Disc == "seq" && !closedE) {
				rc = nil
			}
			select {
			case e, more := <-ec:
				if more {
					got = append(got, match(e))
				} else {
					closedE = true
				}
			case _, more := <-rc:
				if more {
					nerr++
					if nerr > 1000 {
						time.Sleep(time.Millisecond)
					}
				} else {
					closedR = true
				}
			case <-deadline:
				return bad("%s: the parser did not terminate with both channels closed within 20 s (entries closed: %v, errors closed: %v, %d entries, %d errors so far)", ctx, closedE, closedR, len(got), nerr)
			}
		}
		if !back {
			select {
			case pmsg = <-pdone:
			case <-time.After(20 * time.Second):
				return bad("%s: Parse did not return within 20 s of closing its channels", ctx)
			}
		}
		switch {
		case pmsg != "":
			return bad("%s: panic %s", ctx, pmsg)
		case len(got) < cs.K:
			return bad("%s: only %d of the %d entries preceding the damage were delivered", ctx, len(got), cs.K)
		}
		for j := 0; j < cs.K; j++ {
			if got[j] != j+1 {
				return bad("%s: delivered entry %d is not entry %d of the document", ctx, j+1, j+1)
			}
		}
		if !cs.Damaged && (len(got) != cs.K || nerr != 0) {
			return bad("%s: %d entries and %d errors delivered", ctx, len(got), nerr)
		}
		if cs.Damaged && (nerr < 1 || len(got) > cs.K+1) {
			return bad("%s: %d entries and %d errors delivered", ctx, len(got), nerr)
		}
		allSteered = allSteered && steered
		if !steered && os.Getenv("C13D_DEBUG") != "" {
			fmt.Fprintf(os.Stderr, "unsteered: %s\n", ctx)
		}
	}
	return ok(allSteered)
}

func init() {
	registry["C20D"] = &Prop{Replay: c20dReplay}
}
