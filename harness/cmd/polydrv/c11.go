package main

import (
	"encoding/json"
	"math/rand"
	"sort"
	"strings"

	"github.com/TimothyStiles/poly/checks"
	"github.com/TimothyStiles/poly/transform"
	"github.com/TimothyStiles/poly/transform/variants"
)

func init() {
	registry["C11"] = &Prop{
		Replay: func(c json.RawMessage) Verdict {
			var cs struct {
				S, Rc, Comp, Rev string
				Pal, Hasvars     bool
				Vars             []string
			}
			if err := json.Unmarshal(c, &cs); err != nil {
				fatal("C11 case: %v", err)
			}
			if got := transform.ReverseComplement(cs.S); got != cs.Rc {
				return bad("ReverseComplement(%q) = %q, specification %q", cs.S, got, cs.Rc)
			}
			if got := transform.Complement(cs.S); got != cs.Comp {
				return bad("Complement(%q) = %q, specification %q", cs.S, got, cs.Comp)
			}
			for i, r := range cs.S { // the per-base entry point (IUPAC strings are ASCII: i is the letter's index)
				if got := transform.ComplementBase(r); string(got) != cs.Comp[i:i+1] {
					return bad("ComplementBase(%q) = %q, specification %q", r, got, cs.Comp[i:i+1])
				}
			}
			if got := transform.Reverse(cs.S); got != cs.Rev {
				return bad("Reverse(%q) = %q, specification %q", cs.S, got, cs.Rev)
			}
			if got := checks.IsPalindromic(cs.S); got != cs.Pal {
				return bad("IsPalindromic(%q) = %v, specification %v", cs.S, got, cs.Pal)
			}
			if cs.Hasvars {
				// a call on text the function refuses (RNA spelling, letters that are no codes) is no business of the
				// next call: made before every expansion
				_, _ = variants.AllVariantsIUPAC([]string{"AUGN", "acguy", "NNXK", "U", "TBD-V"}[len(cs.S)%5])
				got, err := variants.AllVariantsIUPAC(cs.S)
				if err != nil {
					return bad("AllVariantsIUPAC(%q) error %v", cs.S, err)
				}
				g := make([]string, len(got))
				for i := range got {
					g[i] = strings.ToUpper(got[i]) // concrete A/C/G/T sequences; letter case of the input is not significant
				}
				sort.Strings(g)
				w := append([]string(nil), cs.Vars...)
				sort.Strings(w)
				if cs.S == "" && len(g) == 1 && g[0] == "" {
					g = g[:0] // the empty word: one empty variant or none - the property does not say
				}
				if len(w) == 1 && w[0] == "" {
					w = w[:0]
				}
				if strings.Join(g, ",") != strings.Join(w, ",") {
					return bad("AllVariantsIUPAC(%q) = %v, specification %v (as bags)", cs.S, g, w)
				}
			}
			return ok(len(cs.S) >= 1)
		},
		Record: c11Record,
	}
}

func c11Record(tier string, seed int64, emit func(interface{})) {
	rng := rand.New(rand.NewSource(seed))
	n, maxLen := 120, 2000
	if tier == "thorough" {
		n, maxLen = 1500, 10000
	}
	const upper = "ACGTRYSWKMBDHVN"
	letters := upper + strings.ToLower(upper)
	rnd := func(n int, alpha string) string {
		b := make([]byte, n)
		for i := range b {
			b[i] = alpha[rng.Intn(len(alpha))]
		}
		return string(b)
	}
	pick := func() string {
		m := rng.Intn(maxLen + 1)
		if rng.Intn(2) == 0 {
			m = rng.Intn(40)
		}
		a := letters
		switch rng.Intn(4) {
		case 0:
			a = upper
		case 1:
			a = "ACGT"
		case 2:
			a = letters + "Uu"
		}
		s := rnd(m, a)
		if rng.Intn(4) == 0 { // make it an actual palindrome (no U)
			h := rnd(m/2, letters)
			s = h + transform.ReverseComplement(h)
		}
		return s
	}
	for i := 0; i < n; i++ {
		s := pick()
		rc := transform.ReverseComplement(s)
		emit(map[string]interface{}{"k": "rc", "s": s, "rc": rc, "comp": transform.Complement(s),
			"rev": transform.Reverse(s), "pal": checks.IsPalindromic(s), "rcrc": transform.ReverseComplement(rc)})
		a, b := pick(), pick()
		emit(map[string]interface{}{"k": "cat", "a": a, "b": b, "rca": transform.ReverseComplement(a),
			"rcb": transform.ReverseComplement(b), "rcab": transform.ReverseComplement(a + b)})
	}
	// expansion: words whose number of variants stays small
	// one expansion of more than a million variants: the count and the number of distinct variants are taken by the
	// harness (reported, not spec-decided: TLC does not hold a million strings), 400 of them go to TLC
	// ... and degenerate primers: MANY ambiguous positions of two or three bases each, the expansion still moderate
	// (a back-translated peptide: 13..16 two-fold codes; a mix of two- and three-fold codes)
	bigs := []string{[]string{"NNNNNNNNNN", "NNNNNBNNNNN", "ANNNNNHNNNNNC"}[rng.Intn(3)]}
	{
		var b1, b2 []byte
		for k := 13 + rng.Intn(4); k > 0; k-- {
			b1 = append(b1, "ACGT"[rng.Intn(4)], "ACGT"[rng.Intn(4)], "RYSWKM"[rng.Intn(6)])
		}
		prod := 1
		for prod < 60000 {
			c := "RYSWKMBDHV"[rng.Intn(10)]
			if c == 'B' || c == 'D' || c == 'H' || c == 'V' {
				prod *= 3
			} else {
				prod *= 2
			}
			b2 = append(b2, c, "ACGT"[rng.Intn(4)])
		}
		bigs = append(bigs, string(b1), string(b2))
	}
	for _, s := range bigs {
		v, err := variants.AllVariantsIUPAC(s)
		distinct := map[string]struct{}{}
		for _, x := range v {
			distinct[x] = struct{}{}
		}
		sample := []string{}
		for j := 0; j < 400 && len(v) > 0; j++ {
			sample = append(sample, v[rng.Intn(len(v))])
		}
		if len(v) > 0 {
			sample = append(sample, v[0], v[len(v)-1], v[len(v)/2])
		}
		emit(map[string]interface{}{"k": "varbig", "s": s, "n": len(v), "distinct": len(distinct), "sample": sample, "err": err != nil})
	}
	for i := 0; i < n; i++ {
		m := 1 + rng.Intn(24)
		if i%6 == 5 { // a long oligo whose few ambiguity codes sit far from its start
			m = 60 + rng.Intn(90)
		}
		b := make([]byte, m)
		prod := 1
		for j := range b {
			c := upper[rng.Intn(4)]
			if prod < 128 && (m < 60 && rng.Intn(3) == 0 || m >= 60 && j >= m-12 && rng.Intn(3) == 0) {
				c = upper[rng.Intn(len(upper))]
				prod *= map[byte]int{'A': 1, 'C': 1, 'G': 1, 'T': 1, 'R': 2, 'Y': 2, 'S': 2, 'W': 2, 'K': 2, 'M': 2, 'B': 3, 'D': 3, 'H': 3, 'V': 3, 'N': 4}[c]
			}
			b[j] = c
		}
		s := string(b)
		rc := transform.ReverseComplement(s)
		if i%2 == 0 {
			_, _ = variants.AllVariantsIUPAC([]string{"AUGN", "acguy", "NNXK", "U", "TBD-V"}[i%5]) // see the replay
		}
		v, err1 := variants.AllVariantsIUPAC(s)
		vrc, err2 := variants.AllVariantsIUPAC(rc)
		if err1 != nil || err2 != nil {
			v, vrc = []string{"<error>"}, []string{}
		}
		if v == nil {
			v = []string{}
		}
		if vrc == nil {
			vrc = []string{}
		}
		emit(map[string]interface{}{"k": "var", "s": s, "vars": v, "rc": rc, "varsrc": vrc})
	}
}
