package main

import (
	"encoding/json"
	"fmt"
	"math/rand"
	"os"
	"sort"
	"strings"

	"github.com/TimothyStiles/poly"
	"github.com/TimothyStiles/poly/io/gff"
)

type gffFeat struct {
	Seqid  string      `json:"seqid"`
	Source string      `json:"source"`
	Type   string      `json:"type"`
	S      int         `json:"s,omitempty"`
	E      int         `json:"e,omitempty"`
	Start  int         `json:"start"`
	End    int         `json:"end"`
	Score  string      `json:"score"`
	Strand string      `json:"strand"`
	Phase  string      `json:"phase"`
	Attrs  [][2]string `json:"attrs"`
	Bases  string      `json:"bases"`
}
type gffProj struct {
	Name   string    `json:"name"`
	Rstart int       `json:"rstart"`
	Rend   int       `json:"rend"`
	Seq    string    `json:"seq"`
	Feats  []gffFeat `json:"feats"`
}

func projectGff(s poly.Sequence) (p gffProj, perr string) {
	defer func() {
		if r := recover(); r != nil {
			perr = fmt.Sprintf("panic: %v", r)
		}
	}()
	p = gffProj{Name: s.Meta.Name, Rstart: s.Meta.RegionStart, Rend: s.Meta.RegionEnd, Seq: s.Sequence, Feats: []gffFeat{}}
	for _, f := range s.Features {
		g := gffFeat{Seqid: f.Name, Source: f.Source, Type: f.Type, Start: f.SequenceLocation.Start, End: f.SequenceLocation.End,
			Score: f.Score, Strand: f.Strand, Phase: f.Phase, Attrs: [][2]string{}, Bases: f.GetSequence()}
		var keys []string
		for k := range f.Attributes {
			keys = append(keys, k)
		}
		sort.Strings(keys)
		for _, k := range keys {
			g.Attrs = append(g.Attrs, [2]string{k, f.Attributes[k]})
		}
		p.Feats = append(p.Feats, g)
	}
	return p, ""
}

func safeGffParse(text []byte) (p gffProj, perr string) {
	defer func() {
		if r := recover(); r != nil {
			perr = fmt.Sprintf("panic: %v", r)
		}
	}()
	return projectGff(gff.Parse(text))
}

func c14Replay(c json.RawMessage) Verdict {
	var cs struct {
		Lines    []string
		Expected struct {
			Name         string
			Rstart, Rend int
			Seq          string
			Feats        []struct {
				Seqid, Source, Type, Score, Strand, Phase, Bases string
				Start, End                                       int
				Attrs                                            [][2]string
			}
		}
	}
	if err := json.Unmarshal(c, &cs); err != nil {
		fatal("C14 case: %v", err)
	}
	for _, text := range []string{strings.Join(cs.Lines, "\n") + "\n", strings.Join(cs.Lines, "\n")} {
		p, perr := safeGffParse([]byte(text))
		if perr != "" {
			return bad("gff.Parse on a %d-letter sequence: %s", len(cs.Expected.Seq), perr)
		}
		e := cs.Expected
		if p.Name != e.Name || p.Rstart != e.Rstart || p.Rend != e.Rend {
			return bad("region: parsed %s %d %d, file states %s %d %d", p.Name, p.Rstart, p.Rend, e.Name, e.Rstart, e.Rend)
		}
		if p.Seq != e.Seq {
			return bad("sequence of %d letters parsed as %d letters", len(e.Seq), len(p.Seq))
		}
		if len(p.Feats) != len(e.Feats) {
			return bad("%d features parsed, file has %d", len(p.Feats), len(e.Feats))
		}
		for i, f := range e.Feats {
			g := p.Feats[i]
			ea := append([][2]string(nil), f.Attrs...)
			sort.Slice(ea, func(a, b int) bool { return ea[a][0] < ea[b][0] })
			if g.Seqid != f.Seqid || g.Source != f.Source || g.Type != f.Type || g.Score != f.Score || g.Strand != f.Strand || g.Phase != f.Phase ||
				g.Start != f.Start || g.End != f.End || fmt.Sprint(g.Attrs) != fmt.Sprint(ea) {
				return bad("feature %d parsed as %+v, file states %+v", i, g, f)
			}
			if g.Bases != f.Bases {
				return bad("feature %d (%d..%d of the file): GetSequence gives %q, the file's bases are %q", i, f.Start+1, f.End, g.Bases, f.Bases)
			}
		}
	}
	return ok(true)
}

func c14Record(tier string, seed int64, emit func(interface{})) {
	rng := rand.New(rand.NewSource(seed))
	n := 120
	if tier == "thorough" {
		n = 1500
	}
	field := func(m int, extra string) string {
		alpha := "abcdefghijklmnopqrstuvwxyzABCDEFGHIJKLMNOPQRSTUVWXYZ0123456789_-.:" + extra
		b := make([]byte, 1+rng.Intn(m))
		for i := range b {
			b[i] = alpha[rng.Intn(len(alpha))]
		}
		if m >= 8 && rng.Intn(10) == 0 { // text that looks like a directive or a FASTA header, inside a field
			toks := []string{"##FASTA", "###", "##gff-version", ">seq", "##sequence-region"}
			if strings.Contains(extra, " ") { // only where the field admits blanks
				toks = append(toks, " ##FASTA x", "see the ##FASTA directive")
			}
			return string(b) + toks[rng.Intn(len(toks))]
		}
		if m >= 8 && rng.Intn(8) == 0 { // text that looks like a percent escape: it is text (nobody encoded it)
			return string(b) + []string{"%3B", "%3D", "%09", "%0A", "%25", "%2C", "95%3Bcov", "%", "%%", "%3b"}[rng.Intn(10)] + string(b[:1])
		}
		if m >= 8 && rng.Intn(8) == 0 { // text outside ASCII (the format is UTF-8)
			return string(b) + []string{"é", "µ", "日本", "Ω", "ß"}[rng.Intn(5)]
		}
		if m >= 20 && rng.Intn(40) == 0 { // one very long value: beyond any fixed line buffer
			return string(b) + strings.Repeat("x", 70000+rng.Intn(30000))
		}
		return string(b)
	}
	// seqids: any text free of white space (punctuation included, also in front) - except a leading "##", which
	// would make the line a directive
	seqid := func() string {
		id := field(10, "#|@+%*!,()[]")
		if strings.HasPrefix(id, "##") {
			id = "x" + id
		}
		return id
	}
	var pending []func()
	for i := 0; i < n; i++ {
		ln := 1 + rng.Intn(5000)
		switch rng.Intn(4) {
		case 0:
			ln = 70*rng.Intn(8) + 1 // one-letter last line
		case 1:
			ln = 1 + rng.Intn(145)
		}
		sb := make([]byte, ln)
		for j := range sb {
			sb[j] = "ACGTNacgtn"[rng.Intn(10)]
		}
		name := field(12, "")
		seq := poly.Sequence{Sequence: string(sb)}
		seq.Meta.Name, seq.Meta.RegionStart, seq.Meta.RegionEnd = name, 1, ln
		if rng.Intn(3) == 0 { // a sequence assembled in code may carry any description
			seq.Description = field(25, " ,()")
		}
		rec := map[string]interface{}{"name": name, "rstart": 1, "rend": ln, "seq": string(sb)}
		if rng.Intn(8) == 0 {
			// region bounds left unset in memory (a sequence assembled in code): the library's documented default is
			// the header "<name> 1 1"; the features keep their coordinates all the same
			seq.Meta.RegionStart, seq.Meta.RegionEnd = 0, 0
			rec["rend"] = 1
		}
		if rng.Intn(5) == 0 && seq.Meta.RegionEnd != 0 {
			// the region of interest is a part of the stored sequence: its bounds are data like any other (the end
			// often on a multiple of the line width)
			rs := 1 + rng.Intn(ln)
			re := rs + rng.Intn(ln-rs+1)
			if ln > 70 && rng.Intn(2) == 0 {
				re = 70 * (1 + rng.Intn(ln/70))
				if rs > re {
					rs = 1 + rng.Intn(re)
				}
			}
			seq.Meta.RegionStart, seq.Meta.RegionEnd = rs, re
			rec["rstart"], rec["rend"] = rs, re
		}
		feats := []map[string]interface{}{}
		for j := 0; j < rng.Intn(31); j++ {
			s := 1 + rng.Intn(ln)
			e := s + rng.Intn(ln-s+1)
			switch rng.Intn(6) {
			case 0:
				s, e = 1, ln
			case 1:
				s, e = 1, 1
			case 2:
				s, e = ln, ln
			}
			f := poly.Feature{Name: seqid(), Source: field(8, " "), Type: field(8, ""), Score: []string{".", "0.5", "13"}[rng.Intn(3)],
				Strand: []string{"+", "-", "."}[rng.Intn(3)], Phase: []string{".", "0", "1", "2"}[rng.Intn(4)], Attributes: map[string]string{}}
			f.Source = strings.TrimSpace(f.Source) + "x"
			f.SequenceLocation = poly.Location{Start: s - 1, End: e}
			for len(f.Attributes) < 1+rng.Intn(6) {
				f.Attributes[field(8, "")] = field(20, " ,()/")
			}
			seq.AddFeature(&f)
			var keys []string
			for k := range f.Attributes {
				keys = append(keys, k)
			}
			sort.Strings(keys)
			attrs := [][2]string{}
			for _, k := range keys {
				attrs = append(attrs, [2]string{k, f.Attributes[k]})
			}
			feats = append(feats, map[string]interface{}{"seqid": f.Name, "source": f.Source, "type": f.Type, "s": s, "e": e,
				"score": f.Score, "strand": f.Strand, "phase": f.Phase, "attrs": attrs})
		}
		rec["feats"] = feats
		var text []byte
		panicMsg := ""
		func() {
			defer func() {
				if r := recover(); r != nil {
					panicMsg = fmt.Sprintf("Build: %v", r)
				}
			}()
			if rng.Intn(4) == 0 {
				p := stalePath("gff")
				gff.Write(seq, p)
				text, _ = os.ReadFile(p)
			} else {
				text = gff.Build(seq)
			}
		}()
		// the text is looked at only after the NEXT two records have been built: a result handed out by Build is a
		// value of its own, whatever later calls do
		pending = append(pending, func() {
			parsed, perr := safeGffParse(text)
			if perr != "" && panicMsg == "" {
				panicMsg = "Parse: " + perr
			}
			if parsed.Feats == nil {
				parsed.Feats = []gffFeat{}
			}
			lines := strings.Split(strings.TrimSuffix(string(text), "\n"), "\n")
			emit(map[string]interface{}{"rec": rec, "lines": lines, "parsed": parsed, "panic": panicMsg})
		})
		if len(pending) == 3 || i == n-1 {
			for _, f := range pending {
				f()
			}
			pending = nil
		}
	}
}

func init() {
	registry["C14"] = &Prop{Replay: c14Replay, Record: c14Record}
}
