// polydrv binds the TLA+ specification in /verif/spec to the real poly code.
//
//	polydrv replay <prop> <cases.ndjson> <summary.json>   S->I: run every TLC-emitted case on the real code
//	polydrv record <prop> <tier> <seed> <trace.ndjson>    I->S: run the real code, record one event per call
//	polydrv child  <prop> ...                             risky calls (may hang / spawn / panic) in a child
//
// Verdicts only come from real-code behaviour. A verdict is "ok", "dev:<id>"
// (the behaviour equals a named deviation of the specification; whether that
// deviation is an open known finding is decided by bin/check) or "bad".
package main

import (
	"bufio"
	"encoding/json"
	"fmt"
	"math"
	"os"
	"runtime"
	"sort"
	"sync"
	"sync/atomic"
	"time"
)

type Verdict struct {
	V          string // ok | dev:<id> | bad
	Detail     string
	Nontrivial bool
	Key        string // distinctness key ("" = the case line itself is distinct)
}

func ok(nontrivial bool) Verdict { return Verdict{V: "ok", Nontrivial: nontrivial} }
func bad(format string, a ...interface{}) Verdict {
	return Verdict{V: "bad", Detail: fmt.Sprintf(format, a...), Nontrivial: true}
}
func dev(id, format string, a ...interface{}) Verdict {
	return Verdict{V: "dev:" + id, Detail: fmt.Sprintf(format, a...), Nontrivial: true}
}

type DevInfo struct {
	N     int             `json:"n"`
	First json.RawMessage `json:"first"`
}
type BadCase struct {
	Case   json.RawMessage `json:"case"`
	Detail string          `json:"detail"`
}
type Summary struct {
	Total      int                 `json:"total"`
	Ok         int                 `json:"ok"`
	Nontrivial int                 `json:"nontrivial"`
	Dev        map[string]*DevInfo `json:"dev"`
	Bad        []BadCase           `json:"bad"`
	NBad       int                 `json:"nbad"`
	Samples    []json.RawMessage   `json:"samples"`
	X          map[string]int      `json:"x_counts,omitempty"`
}

type Prop struct {
	Replay func(c json.RawMessage) Verdict
	Record func(tier string, seed int64, emit func(interface{}))
	// Serial: replay cases one at a time (stateful or process-global effects)
	Serial bool
	// Prepare is called with the case file before replay (e.g. to read header cases)
	Prepare func(path string)
	// Finish is called after the last case was replayed
	Finish func()
}

var registry = map[string]*Prop{}

// unwrap turns a CSVWrite line (a JSON string holding JSON) into raw JSON.
func unwrap(line []byte) (json.RawMessage, error) {
	if len(line) > 0 && line[0] == '"' {
		var s string
		if err := json.Unmarshal(line, &s); err != nil {
			return nil, err
		}
		return json.RawMessage(s), nil
	}
	return json.RawMessage(append([]byte(nil), line...)), nil
}

func clip(b []byte, n int) json.RawMessage {
	if len(b) <= n {
		return json.RawMessage(b)
	}
	s, _ := json.Marshal(string(b[:n]) + "...<clipped>")
	return s
}

func replayMain(p *Prop, casesPath, sumPath string, cold int) {
	if p.Prepare != nil {
		p.Prepare(casesPath)
	}
	f, err := os.Open(casesPath)
	if err != nil {
		fatal("open cases: %v", err)
	}
	defer f.Close()
	sc := bufio.NewScanner(f)
	sc.Buffer(make([]byte, 1<<20), 1<<30)
	sum := &Summary{Dev: map[string]*DevInfo{}}
	var mu sync.Mutex
	absorb := func(c json.RawMessage, v Verdict) {
		mu.Lock()
		defer mu.Unlock()
		sum.Total++
		if v.Nontrivial {
			sum.Nontrivial++
		}
		if len(sum.Samples) < 3 && v.Nontrivial {
			sum.Samples = append(sum.Samples, clip(c, 600))
		}
		switch {
		case v.V == "ok":
			sum.Ok++
		case len(v.V) > 4 && v.V[:4] == "dev:":
			d := sum.Dev[v.V[4:]]
			if d == nil {
				d = &DevInfo{First: clip(c, 2000)}
				sum.Dev[v.V[4:]] = d
			}
			d.N++
		default:
			sum.NBad++
			if len(sum.Bad) < 20 {
				sum.Bad = append(sum.Bad, BadCase{Case: clip(c, 4000), Detail: v.Detail})
			}
		}
	}
	workers := runtime.NumCPU()
	if p.Serial {
		workers = 1
	}
	ch := make(chan json.RawMessage, 4096)
	var wg sync.WaitGroup
	// cold start: the workers are released together (spin barrier) once the first cases are queued, so that the
	// process's FIRST calls into the library are made concurrently; with `cold` only one case per goroutine is run
	var gate atomic.Bool
	started := false
	start := func(n int) {
		started = true
		for i := 0; i < n; i++ {
			wg.Add(1)
			go func() {
				defer wg.Done()
				for !gate.Load() {
				}
				for c := range ch {
					absorb(c, safeReplay(p, c))
					if cold > 0 {
						return
					}
				}
			}()
		}
		time.Sleep(2 * time.Millisecond)
		gate.Store(true)
	}
	if cold > 0 && !p.Serial {
		workers = 48
	}
	queued := 0
	var pool []json.RawMessage
	for sc.Scan() {
		line := sc.Bytes()
		if len(line) == 0 {
			continue
		}
		c, err := unwrap(line)
		if err != nil {
			fatal("bad case line: %v: %.200s", err, line)
		}
		if cold > 0 {
			if pool = append(pool, c); len(pool) >= 5000 {
				break
			}
			continue
		}
		ch <- c
		queued++
		if !started && queued >= workers {
			start(workers)
		}
	}
	if cold > 0 && len(pool) > 0 {
		off := 0
		if len(pool) > workers {
			off = (cold * 31) % (len(pool) - workers + 1)
		}
		for i := off; i < len(pool) && i < off+workers; i++ {
			ch <- pool[i]
		}
	}
	if err := sc.Err(); err != nil {
		fatal("scan: %v", err)
	}
	close(ch)
	if !started {
		start(workers)
	}
	wg.Wait()
	if p.Finish != nil {
		p.Finish()
	}
	out, _ := json.Marshal(sum)
	if err := os.WriteFile(sumPath, out, 0644); err != nil {
		fatal("write summary: %v", err)
	}
}

// safeReplay: a panic escaping the real code during a replayed case is a
// behaviour of the real code (never a crash of the harness).
func safeReplay(p *Prop, c json.RawMessage) (v Verdict) {
	defer func() {
		if r := recover(); r != nil {
			v = bad("panic in real code: %v", r)
		}
	}()
	return p.Replay(c)
}

// checkJSON enforces what TLC's Json module can read faithfully: no null, no
// fractions, |int| < 2^31.
func checkJSON(v interface{}) error {
	switch x := v.(type) {
	case nil:
		return fmt.Errorf("null")
	case float64:
		if x != math.Trunc(x) || math.Abs(x) >= 1<<31 {
			return fmt.Errorf("number %v not a 32-bit integer", x)
		}
	case []interface{}:
		for _, e := range x {
			if err := checkJSON(e); err != nil {
				return err
			}
		}
	case map[string]interface{}:
		for k, e := range x {
			if err := checkJSON(e); err != nil {
				return fmt.Errorf("%s: %v", k, err)
			}
		}
	}
	return nil
}

func recordMain(p *Prop, tier string, seed int64, path string) {
	f, err := os.Create(path)
	if err != nil {
		fatal("create trace: %v", err)
	}
	w := bufio.NewWriterSize(f, 1<<20)
	n := 0
	emit := func(ev interface{}) {
		b, err := json.Marshal(ev)
		if err != nil {
			fatal("marshal event: %v", err)
		}
		if len(b) < 1<<16 { // full structural check on all but the huge string events
			var g interface{}
			_ = json.Unmarshal(b, &g)
			if err := checkJSON(g); err != nil {
				fatal("event not TLC-safe: %v: %.300s", err, b)
			}
		}
		w.Write(b)
		w.WriteByte('\n')
		n++
	}
	p.Record(tier, seed, emit)
	w.Flush()
	f.Close()
	fmt.Printf("{\"events\":%d}\n", n)
}

func fatal(format string, a ...interface{}) {
	fmt.Fprintf(os.Stderr, "polydrv: "+format+"\n", a...)
	os.Exit(3)
}

func main() {
	if len(os.Args) < 3 {
		fatal("usage: polydrv replay|record|child <prop> ...")
	}
	if os.Args[1] == "child" {
		childMain(os.Args[2], os.Args[3:])
		return
	}
	p := registry[os.Args[2]]
	if p == nil {
		names := []string{}
		for k := range registry {
			names = append(names, k)
		}
		sort.Strings(names)
		fatal("unknown property %s (have %v)", os.Args[2], names)
	}
	switch os.Args[1] {
	case "replay":
		replayMain(p, os.Args[3], os.Args[4], 0)
	case "cold": // one case per goroutine, all released together right after process start; os.Args[5] varies the pick
		n := 1
		if len(os.Args) > 5 {
			fmt.Sscan(os.Args[5], &n)
		}
		os.Unsetenv("C02_PRINTED") // side outputs belong to the full replay: a cold start must not truncate them
		replayMain(p, os.Args[3], os.Args[4], 1+n)
	case "record":
		var seed int64
		fmt.Sscan(os.Args[4], &seed)
		recordMain(p, os.Args[3], seed, os.Args[5])
	default:
		fatal("unknown command %s", os.Args[1])
	}
}
