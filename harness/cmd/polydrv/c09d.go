package main

// Directed schedules for C09 (spec/C09_Sched.tla): the goroutines of clone.CircularLigate are stepped through a
// TLC-generated behaviour of LigationConc with the verif hooks as gates.  Every hook call parks its goroutine
// until the controller grants it; start / sent / recv are granted on arrival (they have no action of their own in
// the model), spawn / send / done / closing / result are the gates of GSpawn|MainSeed / GSend / GExit / MainClose /
// CollFinish.  Model goroutine g <-> real goroutine: by birth order (one spawn is granted at a time and the next new
// goroutine to report `start` is its child).
// The verdict is the property's: the call returns, and returns exactly the rings of the pool, each once.  A step
// the real code does not follow within a short wait opens all gates ("unsteered"), never a violation.

import (
	"bytes"
	"encoding/json"
	"fmt"
	"math/rand"
	"os"
	"runtime"
	"strconv"
	"sync/atomic"
	"time"

	"github.com/TimothyStiles/poly/clone"
)

func goid() uint64 {
	var buf [64]byte
	b := buf[:runtime.Stack(buf[:], false)]
	b = bytes.TrimPrefix(b, []byte("goroutine "))
	if i := bytes.IndexByte(b, ' '); i > 0 {
		n, _ := strconv.ParseUint(string(b[:i]), 10, 64)
		return n
	}
	return 0
}

type gateEv struct {
	ev, a, b string
	gid      uint64
	grant    chan struct{}
}

func c09dReplay(c json.RawMessage) Verdict {
	softWait := c09dStats.wait()
	var cs struct {
		M     int
		Pool  absPool
		Sched []struct {
			A string
			G int
		}
		Result    [][]ringStep
		Molecules int
	}
	if err := json.Unmarshal(c, &cs); err != nil {
		fatal("C09 schedule: %v", err)
	}
	h := int64(len(cs.Sched))
	for _, f := range cs.Pool {
		h = h*31 + int64(f.F*17+f.R)
	}
	rng := rand.New(rand.NewSource(h))
	frags, bodies, _ := fragsOf(cs.Pool, cs.M, rng)
	cp := concretePool{m: cs.M, pool: cs.Pool, bodies: bodies}
	want := map[string]bool{}
	for _, r := range cs.Result {
		want[canonCircular(cp.ringDNA(r))] = true
	}
	if len(want) != cs.Molecules {
		fatal("C09 schedule: %d distinct expected rings, the specification counts %d molecules", len(want), cs.Molecules)
	}

	arrivals := make(chan gateEv, 4096)
	free := make(chan struct{})
	var freed atomic.Bool
	clone.VerifHook = func(ev, a, b string) {
		if freed.Load() {
			return
		}
		g := gateEv{ev: ev, a: a, b: b, gid: goid(), grant: make(chan struct{})}
		select {
		case arrivals <- g:
		case <-free:
			return
		}
		select {
		case <-g.grant:
		case <-free:
		}
	}
	defer func() { clone.VerifHook = nil }()
	done := make(chan []clone.Part, 1)
	go func() { done <- clone.CircularLigate(frags) }()

	parked := map[uint64]gateEv{}
	var mainID, collID uint64
	byIndex := []uint64{0} // model goroutine index (1-based) -> real goroutine
	known := map[uint64]bool{}
	recvSeen := 0
	// pump processes arrivals until cond holds; false on time-out
	pump := func(cond func() bool) bool {
		for !cond() {
			select {
			case g := <-arrivals:
				switch g.ev {
				case "start":
					if !known[g.gid] {
						known[g.gid] = true
						byIndex = append(byIndex, g.gid)
					}
					close(g.grant)
				case "sent":
					close(g.grant)
				case "recv":
					collID = g.gid
					recvSeen++
					close(g.grant)
				default:
					if mainID == 0 && g.ev == "spawn" {
						mainID = g.gid
					}
					if g.ev == "result" {
						collID = g.gid
					}
					parked[g.gid] = g
				}
			case <-time.After(softWait):
				return false
			}
		}
		return true
	}
	grant := func(id uint64) {
		g := parked[id]
		delete(parked, id)
		close(g.grant)
	}
	at := func(id *uint64, ev string) func() bool {
		return func() bool { g, okk := parked[*id]; return *id != 0 && okk && g.ev == ev }
	}
	steered := true
	var ops []string
	for _, st := range cs.Sched {
		ops = append(ops, fmt.Sprintf("%s%d", st.A, st.G))
	}
	for _, st := range cs.Sched {
		if !steered {
			break
		}
		switch st.A {
		case "seed":
			if mainID == 0 {
				steered = pump(func() bool { return mainID != 0 })
			}
			n := len(byIndex)
			steered = steered && pump(at(&mainID, "spawn"))
			if steered {
				grant(mainID)
				steered = pump(func() bool { return len(byIndex) > n })
			}
		case "spawn", "send", "exit":
			if st.G >= len(byIndex) {
				steered = false
				break
			}
			id := byIndex[st.G]
			ev := map[string]string{"spawn": "spawn", "send": "send", "exit": "done"}[st.A]
			steered = pump(at(&id, ev))
			if !steered {
				break
			}
			n, r := len(byIndex), recvSeen
			grant(id)
			switch st.A {
			case "spawn":
				steered = pump(func() bool { return len(byIndex) > n })
			case "send":
				steered = pump(func() bool { return recvSeen > r })
			}
		case "close":
			steered = pump(at(&mainID, "closing"))
			if steered {
				grant(mainID)
			}
		case "finish":
			steered = pump(func() bool { return collID != 0 }) && pump(at(&collID, "result"))
			if steered {
				grant(collID)
			}
		}
	}
	c09dStats.note(steered)
	if !steered {
		if os.Getenv("C13D_DEBUG") != "" {
			fmt.Fprintf(os.Stderr, "unsteered: pool %v schedule %v\n", cs.Pool, ops)
		}
	}
	freed.Store(true)
	close(free)
	var res []clone.Part
	select {
	case res = <-done:
	case <-time.After(20 * time.Second):
		return bad("pool %v, schedule %v: clone.CircularLigate did not return within 20 s (goroutines: %d)", cs.Pool, ops, runtime.NumGoroutine())
	}
	got := map[string]int{}
	for _, p := range res {
		if !p.Circular {
			return bad("pool %v: a construct is not marked circular", cs.Pool)
		}
		got[canonCircular(p.Sequence)]++
	}
	for k, n := range got {
		if n > 1 {
			return bad("pool %v, schedule %v: the same molecule is returned %d times (%d bases)", cs.Pool, ops, n, len(k))
		}
		if !want[k] {
			return bad("pool %v, schedule %v: spurious construct %s", cs.Pool, ops, k)
		}
	}
	for k := range want {
		if got[k] == 0 {
			return bad("pool %v, schedule %v: a ring of the pool is missing (%d of %d constructs returned): %s", cs.Pool, ops, len(got), len(want), k)
		}
	}
	return ok(steered)
}

func init() {
	registry["C09D"] = &Prop{Replay: c09dReplay, Serial: true, Prepare: func(string) { limitMemory() }}
}
