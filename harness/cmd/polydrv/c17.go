package main

import (
	"bufio"
	"encoding/json"
	"math/rand"
	"os"
	"strings"

	"github.com/TimothyStiles/poly/primers"
)

var c17Filters = map[string]func(string) bool{
	"noGG": func(s string) bool { return !strings.Contains(s, "GG") },
	"notA": func(s string) bool { return !strings.HasPrefix(s, "A") },
	"gcMax": func(s string) bool {
		return 2*(strings.Count(s, "G")+strings.Count(s, "C")) <= len(s)+1
	},
	"noHomo3": func(s string) bool {
		return !(strings.Contains(s, "AAA") || strings.Contains(s, "TTT") || strings.Contains(s, "GGG") || strings.Contains(s, "CCC"))
	},
}

// c17Record: (1) the De Bruijn sequences, (2) every input TLC enumerated (file named by C17_CASES),
// (3) random and adversarial inputs on orders 2..8.  One event per call; TLC judges the real output.
func c17Record(tier string, seed int64, emit func(interface{})) {
	rng := rand.New(rand.NewSource(seed))
	maxOrder := 8
	dbs := map[int]string{}
	for n := 1; n <= maxOrder; n++ {
		dbs[n] = primers.NucleobaseDeBruijnSequence(n)
		emit(map[string]interface{}{"k": "db", "n": n, "s": dbs[n]})
	}
	var call func(n, length int, bans, filters []string)
	callAs := func(n, length int, passed, bans, filters []string) {
		var fs []func(string) bool
		for _, f := range filters {
			fs = append(fs, c17Filters[f])
		}
		var list []string
		if len(bans) == 0 && len(filters) == 0 && rng.Intn(2) == 0 {
			list = primers.CreateBarcodes(length, n)
		} else {
			list = primers.CreateBarcodesWithBannedSequences(length, n, passed, fs)
		}
		idx := []int{}
		from := 0
		for _, b := range list {
			i := strings.Index(dbs[n][from:], b) // barcodes come in increasing order of position
			if i < 0 {
				i = strings.Index(dbs[n], b)
				if i < 0 {
					idx = append(idx, 0)
					continue
				}
				idx = append(idx, i)
				continue
			}
			idx = append(idx, from+i)
			from += i + 1
		}
		if list == nil {
			list = []string{}
		}
		emit(map[string]interface{}{"k": "bar", "n": n, "len": length, "bans": nz(bans), "filters": nz(filters), "list": list, "idx": idx})
	}
	// the caller's list of sites is the caller's: a call is given its OWN copy of the bans, followed in the same
	// backing array by the words of a longer list (a prefix of one site list, as in `sites[:k]`)
	call = func(n, length int, bans, filters []string) {
		backing := append(append(make([]string, 0, len(bans)+3), bans...), "ACGTAC", "GGATCC", "TTGACA")
		callAs(n, length, backing[:len(bans):len(backing)], bans, filters)
	}
	if path := os.Getenv("C17_CASES"); path != "" {
		f, err := os.Open(path)
		if err != nil {
			fatal("C17 cases: %v", err)
		}
		sc := bufio.NewScanner(f)
		sc.Buffer(make([]byte, 1<<20), 1<<26)
		for sc.Scan() {
			raw, err := unwrap(sc.Bytes())
			if err != nil {
				fatal("C17 case line: %v", err)
			}
			var cs struct {
				N, Len        int
				Bans, Filters []string
			}
			if err := json.Unmarshal(raw, &cs); err != nil {
				fatal("C17 case: %v", err)
			}
			call(cs.N, cs.Len, cs.Bans, cs.Filters)
		}
		f.Close()
	}
	nRand := 150
	if tier == "thorough" {
		nRand = 2500
	}
	// long slides: at the low-complexity start of a high-order sequence a ban and a first-base filter keep pushing
	// the window one base at a time for more than a thousand moves before it settles
	for _, n := range []int{7, 8} {
		for _, length := range []int{n, n + 1} {
			for _, bans := range [][]string{{"AA"}, {"TT"}, {"AA", "AT", "AG", "AC"}, {"AAA"}} {
				for _, fl := range [][]string{{"notA"}, {}} {
					if tier == "thorough" || (n == 8 && length == 8) || len(bans) == 1 {
						call(n, length, bans, fl)
					}
				}
			}
		}
	}
	// bans that occur once only, across the seam between the 4^n-letter cycle and the n-1 letters repeated after it,
	// with barcode lengths whose last window reaches over the seam
	for n := 2; n <= 5; n++ {
		L := len(dbs[n])
		for _, m := range []int{n + 1, n + 2, n + 3} {
			if m > 8 {
				continue
			}
			for off := 1; off < m && off <= n-1; off++ { // `off` letters of the ban lie in the repeated suffix
				from := L - (n - 1) + off - m
				if from < 0 {
					continue
				}
				ban := dbs[n][from : from+m]
				for _, length := range []int{n + 2, 2*n + 3, 2*n + 5} {
					call(n, length, []string{ban}, nil)
					call(n, length, []string{rcDNA(ban)}, nil)
				}
			}
		}
	}
	fnames := []string{"noGG", "notA", "gcMax", "noHomo3"}
	for i := 0; i < nRand; i++ {
		n := 2 + rng.Intn(maxOrder-1)
		length := n + rng.Intn(61-n)
		if rng.Intn(2) == 0 {
			length = n + rng.Intn(8)
		}
		var bans []string
		for j := 0; j < rng.Intn(6); j++ {
			m := 2 + rng.Intn(7)
			if rng.Intn(2) == 0 { // adversarial: a word that really occurs in the sequence, or the reverse complement of the previous ban's neighbourhood
				p := rng.Intn(len(dbs[n]) - m)
				bans = append(bans, dbs[n][p:p+m])
			} else {
				b := make([]byte, m)
				for x := range b {
					b[x] = "ATGC"[rng.Intn(4)]
				}
				bans = append(bans, string(b))
			}
		}
		var filters []string
		for j := 0; j < rng.Intn(4); j++ {
			filters = append(filters, fnames[rng.Intn(4)])
		}
		call(n, length, bans, filters)
		// growing prefixes of ONE site list in one backing array: each call is judged against the bans it was given
		if len(bans) >= 2 && i%2 == 0 {
			orig := append([]string(nil), bans...)
			for k := 1; k <= len(bans); k++ {
				callAs(n, length, bans[:k], orig[:k], filters)
			}
		}
	}
}

// harness-side count for the orders TLC does not hold as a set of n-mers (reported, not spec-decided)
func c17BigOrders(maxN int) map[int]bool {
	out := map[int]bool{}
	for n := 9; n <= maxN; n++ {
		s := primers.NucleobaseDeBruijnSequence(n)
		seen := make(map[string]struct{}, 1<<(2*uint(n)))
		for i := 0; i+n <= len(s); i++ {
			seen[s[i:i+n]] = struct{}{}
		}
		want := 1 << (2 * uint(n))
		out[n] = len(s) == want+n-1 && len(seen) == want
	}
	return out
}

func init() {
	registry["C17"] = &Prop{Record: c17Record, Replay: func(c json.RawMessage) Verdict {
		// orders 9..11: harness-side count only
		var cs struct{ MaxN int }
		_ = json.Unmarshal(c, &cs)
		for n, good := range c17BigOrders(cs.MaxN) {
			if !good {
				return bad("order %d: not a De Bruijn sequence (harness-side count of distinct %d-mers)", n, n)
			}
		}
		return ok(true)
	}}
}
