package main

import (
	"encoding/json"
	"fmt"
	"math"
	"math/rand"
	"os"
	"strings"

	polyrandom "github.com/TimothyStiles/poly/random"
	"github.com/TimothyStiles/poly/transform/codon"
)

func c07Draws() int {
	if os.Getenv("VERIF_TIER_INTERNAL") == "thorough" {
		return 100000
	}
	return 20000
}

func c07Replay(c json.RawMessage) Verdict {
	var cs struct {
		Id   int
		Pat  string
		W    sparse
		Elig map[string]json.RawMessage
	}
	if err := json.Unmarshal(c, &cs); err != nil {
		fatal("C07 case: %v", err)
	}
	t, e := tableWithWeights(cs.Id, cs.W.at)
	if e != "" {
		return bad("could not build the table: %s", e)
	}
	if (cs.Id+len(cs.Pat))%2 == 0 { // the same table laid out in another order
		t = shuffleTable(t, int64(cs.Id*7+len(cs.Pat)))
	}
	return c07CheckTable(t, cs.Id, cs.Pat, cs.W, cs.Elig, c07Draws())
}

// c07CheckTable: the clauses of C07 for one real table t whose weights are W and whose eligible sets are Elig
func c07CheckTable(t codon.Table, id int, pat string, W sparse, Elig map[string]json.RawMessage, n int) Verdict {
	cs := struct {
		Id   int
		Pat  string
		W    sparse
		Elig map[string]json.RawMessage
	}{id, pat, W, Elig}
	var dead []string
	for aa, raw := range cs.Elig {
		var el []string
		_ = json.Unmarshal(raw, &el) // [] = empty
		if len(el) == 0 {
			dead = append(dead, aa)
			continue
		}
		ok1 := map[string]bool{}
		tot := 0
		for _, cd := range el {
			ok1[cd] = true
			tot += cs.W.at(cd)
		}
		dna, errs := safeOptimize(strings.Repeat(aa, n), t)
		if errs != "" {
			return bad("table %d/%s: Optimize rejects the encodable residue %q: %s", cs.Id, cs.Pat, aa, errs)
		}
		if len(dna) != 3*n {
			return bad("table %d/%s residue %q: %d bases for %d residues", cs.Id, cs.Pat, aa, len(dna), n)
		}
		cnt := map[string]int{}
		for i := 0; i < len(dna); i += 3 {
			cnt[dna[i:i+3]]++
		}
		for cd := range cnt {
			if !ok1[cd] {
				return bad("table %d/%s residue %q: emitted codon %s (weight %d) is not eligible; eligible: %v", cs.Id, cs.Pat, aa, cd, cs.W.at(cd), el)
			}
		}
		back, _ := codon.Translate(dna, t)
		if back != strings.Repeat(aa, n) {
			return bad("table %d/%s residue %q: the optimised gene does not translate back", cs.Id, cs.Pat, aa)
		}
		// proportionality: per-codon z-test against the specification's weights (statistical clause, |z| <= 6)
		for _, cd := range el {
			p := float64(cs.W.at(cd)) / float64(tot)
			if p >= 1 {
				continue
			}
			z := (float64(cnt[cd]) - float64(n)*p) / math.Sqrt(float64(n)*p*(1-p))
			if math.Abs(z) > 6 {
				return bad("table %d/%s residue %q: codon %s drawn %d of %d times, weight share %.4f (z = %.1f)", cs.Id, cs.Pat, aa, cd, cnt[cd], n, p, z)
			}
		}
	}
	// the draws of one Optimize call do not depend on what another package did to the process-wide random source just
	// before: random.ProteinSequence(n, seed) re-seeds it with the caller's seed, Optimize right after it is still random
	for aa, raw := range cs.Elig {
		var el []string
		_ = json.Unmarshal(raw, &el)
		if len(el) < 2 {
			continue
		}
		tot := 0
		for _, cd := range el {
			tot += cs.W.at(cd)
		}
		cnt := map[string]int{}
		rounds := 1500
		for r := 0; r < rounds; r++ {
			_, _ = polyrandom.ProteinSequence(8, 5)
			dna, errs := safeOptimize(aa, t)
			if errs != "" || len(dna) != 3 {
				return bad("table %d/%s: Optimize(%q) after random.ProteinSequence: %s %q", cs.Id, cs.Pat, aa, errs, dna)
			}
			cnt[dna]++
		}
		for _, cd := range el {
			pr := float64(cs.W.at(cd)) / float64(tot)
			z := (float64(cnt[cd]) - float64(rounds)*pr) / math.Sqrt(float64(rounds)*pr*(1-pr))
			if math.Abs(z) > 6 {
				return bad("table %d/%s residue %q: in %d calls of Optimize, each right after random.ProteinSequence(8, 5), codon %s was drawn %d times, weight share %.3f (z = %.1f)", cs.Id, cs.Pat, aa, rounds, cd, cnt[cd], pr, z)
			}
		}
		break // one residue per table is enough
	}
	// unencodable residues must be rejected with an error
	probe := append(dead, "J", "k", "@", " ", "\n", "\t", "\r", "\x00", "0", "-", ".", "B", "X", "Z", "U", "O", "\u00e9", "\u212a")
	if _, has := cs.Elig["*"]; !has {
		probe = append(probe, "*") // a genetic code without a stop signal among its letters (27, 28, 31)
	}
	// an encodable residue to put around the unencodable one (a protein is rejected as a whole)
	enc := ""
	for aa, raw := range cs.Elig {
		var el []string
		_ = json.Unmarshal(raw, &el)
		if len(el) > 0 && aa != "*" && (enc == "" || aa < enc) {
			enc = aa
		}
	}
	var probes [][2]string
	for _, aa := range probe {
		probes = append(probes, [2]string{aa, aa})
		if enc != "" {
			probes = append(probes, [2]string{aa, enc + enc + aa}, [2]string{aa, aa + enc}, [2]string{aa, enc + aa + enc + enc})
		}
	}
	for _, pr := range probes {
		aa := pr[0]
		_, errs := safeOptimize(pr[1], t)
		inTable := false
		for _, d := range dead {
			if d == aa {
				inTable = true
			}
		}
		switch {
		case strings.HasPrefix(errs, "error"):
		case strings.HasPrefix(errs, "panic"):
			return dev("C07-unencodable-residue-panics", "table %d/%s: Optimize(%q) panics: %s (in table: %v)", cs.Id, cs.Pat, pr[1], errs, inTable)
		default:
			return bad("table %d/%s: Optimize(%q) with the unencodable residue %q returned DNA", cs.Id, cs.Pat, pr[1], aa)
		}
	}
	return ok(true)
}

func c07Record(tier string, seed int64, emit func(interface{})) {
	rng := rand.New(rand.NewSource(seed))
	n := 60
	if tier == "thorough" {
		n = 800
	}
	for i := 0; i < n; i++ {
		id := tableIds[rng.Intn(len(tableIds))]
		var t codon.Table
		switch rng.Intn(3) {
		case 0:
			t = roundtrip(codon.GetCodonTable(id), false)
		case 1:
			t = roundtrip(codon.GetCodonTable(id).OptimizeTable(randCoding(rng, 192+rng.Intn(5000), true)), false)
		default: // short coding sequence: many amino acids with zero weight or missing
			t = roundtrip(codon.GetCodonTable(id).OptimizeTable(randCoding(rng, rng.Intn(200), false)), false)
		}
		w, letter, _ := projectTable(t)
		var p string
		switch rng.Intn(4) {
		case 0: // the library's own random protein generator
			p, _ = polyrandom.ProteinSequence(3+rng.Intn(300), rng.Int63())
		case 1: // over the letters that must be encodable
			ls := encodableLetters(letter, w)
			if len(ls) == 0 {
				ls = []byte("M")
			}
			b := make([]byte, 1+rng.Intn(2000))
			for j := range b {
				b[j] = ls[rng.Intn(len(ls))]
			}
			p = string(b)
		case 2: // over all letters of the table
			b := make([]byte, 1+rng.Intn(200))
			for j := range b {
				b[j] = letter[allCodons[rng.Intn(64)]][0]
			}
			p = string(b)
		default: // one unencodable residue somewhere
			b := []byte(strings.Repeat("M", 1+rng.Intn(50)))
			b[rng.Intn(len(b))] = "JjkmBZ@ "[rng.Intn(8)]
			p = string(b)
		}
		dna, errs := safeOptimize(p, t)
		res := "ok"
		if strings.HasPrefix(errs, "error") {
			res = "error"
		} else if errs != "" {
			res = "panic"
		}
		emit(map[string]interface{}{"k": "opt", "id": id, "w": toSparse(w), "protein": p, "res": res, "dna": dna})
	}
	_ = fmt.Sprint
}

// c07SessionReplay: one live table object driven through a history of in-place re-weightings (C07_Session)
func c07SessionReplay(c json.RawMessage) Verdict {
	type step struct {
		W    sparse
		How  string
		Used bool
	}
	var cs struct {
		Id   int
		Hist []step
		How  string
		W    sparse
		Elig map[string]json.RawMessage
	}
	if err := json.Unmarshal(c, &cs); err != nil {
		fatal("C07 session case: %v", err)
	}
	coding := func(w sparse) string {
		var b strings.Builder
		for _, cd := range allCodons {
			for i := 0; i < w.at(cd); i++ {
				b.WriteString(cd)
			}
		}
		return b.String()
	}
	// the live table: its own backing arrays (KF-C08-1 is about the shared defaults), kept for the whole history
	t := roundtrip(codon.GetCodonTable(cs.Id), false)
	_, letter, _ := projectTable(t)
	// re-weighting in place: through the library's call, or by assigning the exported Weight fields
	reweight := func(how string, w sparse) {
		if how == "fields" {
			for i := range t.AminoAcids {
				for j := range t.AminoAcids[i].Codons {
					t.AminoAcids[i].Codons[j].Weight = w.at(t.AminoAcids[i].Codons[j].Triplet)
				}
			}
			return
		}
		t = t.OptimizeTable(coding(w))
	}
	for _, st := range cs.Hist {
		reweight(st.How, st.W)
		if st.Used {
			w, _, _ := projectTable(t)
			if ls := encodableLetters(letter, w); len(ls) > 0 {
				if _, errs := safeOptimize(strings.Repeat(string(ls), 3), t); errs != "" {
					return bad("table %d: Optimize over the encodable letters %q fails at an earlier step: %s", cs.Id, ls, errs)
				}
			}
		}
	}
	reweight(cs.How, cs.W)
	got, _, perr := projectTable(t)
	if perr != "" {
		return bad("session table: %s", perr)
	}
	for _, cd := range allCodons {
		if got[cd] != cs.W.at(cd) {
			return bad("re-weighting in place: weight of %s is %d, the specification's state has %d", cd, got[cd], cs.W.at(cd))
		}
	}
	n := 3000
	if os.Getenv("VERIF_TIER_INTERNAL") == "thorough" {
		n = 2000 // 21,636 histories in the thorough tier
	}
	v := c07CheckTable(t, cs.Id, fmt.Sprintf("after %d earlier re-weightings", len(cs.Hist)), cs.W, cs.Elig, n)
	if v.V != "ok" {
		return v
	}
	// Optimize must not have changed the table
	after, _, _ := projectTable(t)
	for _, cd := range allCodons {
		if after[cd] != got[cd] {
			return bad("Optimize changed the weight of %s from %d to %d", cd, got[cd], after[cd])
		}
	}
	return ok(true)
}

func init() {
	registry["C07S"] = &Prop{Replay: c07SessionReplay, Serial: true}
	registry["C07"] = &Prop{Replay: c07Replay, Record: c07Record, Serial: true}
}
