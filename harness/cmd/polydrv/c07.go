package main

import (
	"encoding/json"
	"fmt"
	"math"
	"math/rand"
	"os"
	"strings"

	polyrandom "github.com/TimothyStiles/poly/random"
	"github.com/TimothyStiles/poly/transform/codon"
)

func c07Draws() int {
	if os.Getenv("VERIF_TIER_INTERNAL") == "thorough" {
		return 100000
	}
	return 20000
}

func c07Replay(c json.RawMessage) Verdict {
	var cs struct {
		Id   int
		Pat  string
		W    sparse
		Elig map[string]json.RawMessage
	}
	if err := json.Unmarshal(c, &cs); err != nil {
		fatal("C07 case: %v", err)
	}
	t, e := tableWithWeights(cs.Id, cs.W.at)
	if e != "" {
		return bad("could not build the table: %s", e)
	}
	n := c07Draws()
	var dead []string
	for aa, raw := range cs.Elig {
		var el []string
		_ = json.Unmarshal(raw, &el) // [] = empty
		if len(el) == 0 {
			dead = append(dead, aa)
			continue
		}
		ok1 := map[string]bool{}
		tot := 0
		for _, cd := range el {
			ok1[cd] = true
			tot += cs.W.at(cd)
		}
		dna, errs := safeOptimize(strings.Repeat(aa, n), t)
		if errs != "" {
			return bad("table %d/%s: Optimize rejects the encodable residue %q: %s", cs.Id, cs.Pat, aa, errs)
		}
		if len(dna) != 3*n {
			return bad("table %d/%s residue %q: %d bases for %d residues", cs.Id, cs.Pat, aa, len(dna), n)
		}
		cnt := map[string]int{}
		for i := 0; i < len(dna); i += 3 {
			cnt[dna[i:i+3]]++
		}
		for cd := range cnt {
			if !ok1[cd] {
				return bad("table %d/%s residue %q: emitted codon %s (weight %d) is not eligible; eligible: %v", cs.Id, cs.Pat, aa, cd, cs.W.at(cd), el)
			}
		}
		back, _ := codon.Translate(dna, t)
		if back != strings.Repeat(aa, n) {
			return bad("table %d/%s residue %q: the optimised gene does not translate back", cs.Id, cs.Pat, aa)
		}
		// proportionality: per-codon z-test against the specification's weights (statistical clause, |z| <= 6)
		for _, cd := range el {
			p := float64(cs.W.at(cd)) / float64(tot)
			if p >= 1 {
				continue
			}
			z := (float64(cnt[cd]) - float64(n)*p) / math.Sqrt(float64(n)*p*(1-p))
			if math.Abs(z) > 6 {
				return bad("table %d/%s residue %q: codon %s drawn %d of %d times, weight share %.4f (z = %.1f)", cs.Id, cs.Pat, aa, cd, cnt[cd], n, p, z)
			}
		}
	}
	// unencodable residues must be rejected with an error
	for _, aa := range append(dead, "J", "k", "@") {
		_, errs := safeOptimize("M"[:0]+aa, t)
		inTable := false
		for _, d := range dead {
			if d == aa {
				inTable = true
			}
		}
		switch {
		case strings.HasPrefix(errs, "error"):
		case strings.HasPrefix(errs, "panic"):
			return dev("C07-unencodable-residue-panics", "table %d/%s: Optimize(%q) panics: %s (in table: %v)", cs.Id, cs.Pat, aa, errs, inTable)
		default:
			return bad("table %d/%s: Optimize(%q) with an unencodable residue returned DNA", cs.Id, cs.Pat, aa)
		}
	}
	return ok(true)
}

func c07Record(tier string, seed int64, emit func(interface{})) {
	rng := rand.New(rand.NewSource(seed))
	n := 60
	if tier == "thorough" {
		n = 800
	}
	for i := 0; i < n; i++ {
		id := tableIds[rng.Intn(len(tableIds))]
		var t codon.Table
		switch rng.Intn(3) {
		case 0:
			t = roundtrip(codon.GetCodonTable(id), false)
		case 1:
			t = roundtrip(codon.GetCodonTable(id).OptimizeTable(randCoding(rng, 192+rng.Intn(5000), true)), false)
		default: // short coding sequence: many amino acids with zero weight or missing
			t = roundtrip(codon.GetCodonTable(id).OptimizeTable(randCoding(rng, rng.Intn(200), false)), false)
		}
		w, letter, _ := projectTable(t)
		var p string
		switch rng.Intn(4) {
		case 0: // the library's own random protein generator
			p, _ = polyrandom.ProteinSequence(3+rng.Intn(300), rng.Int63())
		case 1: // over the letters that must be encodable
			ls := encodableLetters(letter, w)
			if len(ls) == 0 {
				ls = []byte("M")
			}
			b := make([]byte, 1+rng.Intn(2000))
			for j := range b {
				b[j] = ls[rng.Intn(len(ls))]
			}
			p = string(b)
		case 2: // over all letters of the table
			b := make([]byte, 1+rng.Intn(200))
			for j := range b {
				b[j] = letter[allCodons[rng.Intn(64)]][0]
			}
			p = string(b)
		default: // one unencodable residue somewhere
			b := []byte(strings.Repeat("M", 1+rng.Intn(50)))
			b[rng.Intn(len(b))] = "JjkmBZ@ "[rng.Intn(8)]
			p = string(b)
		}
		dna, errs := safeOptimize(p, t)
		res := "ok"
		if strings.HasPrefix(errs, "error") {
			res = "error"
		} else if errs != "" {
			res = "panic"
		}
		emit(map[string]interface{}{"k": "opt", "id": id, "w": toSparse(w), "protein": p, "res": res, "dna": dna})
	}
	_ = fmt.Sprint
}

func init() {
	registry["C07"] = &Prop{Replay: c07Replay, Record: c07Record, Serial: true}
}
