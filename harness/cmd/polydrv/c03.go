package main

import (
	"bufio"
	"bytes"
	"encoding/json"
	"fmt"
	"math/rand"
	"os"
	"reflect"
	"strings"

	"github.com/TimothyStiles/poly"
	"github.com/TimothyStiles/poly/io/genbank"
)

// assemble builds a poly.Sequence "programmatically" from an abstract record
func assemble(w gbRec, cached bool) poly.Sequence {
	s := poly.Sequence{Sequence: w.Origin}
	s.Meta.Locus = poly.Locus{Name: w.Locus.Name, SequenceLength: w.Locus.Len, MoleculeType: w.Locus.Mol, GenbankDivision: w.Locus.Div,
		ModificationDate: w.Locus.Date, SequenceCoding: "bp", Circular: w.Locus.Topo == "circular", Linear: w.Locus.Topo == "linear"}
	s.Meta.Definition, s.Meta.Accession, s.Meta.Version, s.Meta.Keywords = w.Definition, w.Accession, w.Version, w.Keywords
	s.Meta.Source, s.Meta.Organism = w.Source, w.Organism
	for _, r := range w.Refs {
		s.Meta.References = append(s.Meta.References, poly.Reference{Index: r.Index, Authors: r.Authors, Title: r.Title, Journal: r.Journal, PubMed: r.Pubmed, Remark: r.Remark, Range: r.Range})
	}
	s.Meta.Other = map[string]string{}
	for _, o := range w.Others {
		s.Meta.Other[o[0]] = o[1]
	}
	for _, f := range w.Feats {
		ft := poly.Feature{Type: f.Key, Attributes: map[string]string{}, SequenceLocation: genbank.VerifParseLocation(f.Loc)}
		if cached {
			ft.GbkLocationString = f.Loc
		}
		for _, q := range f.Quals {
			ft.Attributes[q[0]] = q[1]
		}
		s.AddFeature(&ft)
	}
	return s
}

// c03One writes x eight times at once and reads it back LATER (c03Flush): the bytes handed out by Build are a value
// of their own, whatever later Build / Parse calls do.  The event is what C03_Trace judges.
var c03Pending []func()

func c03Flush() {
	for _, f := range c03Pending {
		f()
	}
	c03Pending = nil
}

func c03One(x poly.Sequence, mode int, viaFile bool, emit func(interface{})) {
	ev := map[string]interface{}{"mode": mode}
	var text []byte
	det := true
	func() {
		defer func() {
			if r := recover(); r != nil {
				ev["panic"] = fmt.Sprint(r)
			}
		}()
		first := genbank.Build(x)
		for j := 0; j < 7; j++ {
			if !bytes.Equal(genbank.Build(x), first) {
				det = false
			}
		}
		text = first
		if viaFile {
			p := stalePath("genbank")
			genbank.Write(x, p)
			text, _ = os.ReadFile(p)
		}
	}()
	c03Pending = append(c03Pending, func() {
		if _, crashed := ev["panic"]; !crashed {
			func() {
				defer func() {
					if r := recover(); r != nil {
						ev["panic"] = fmt.Sprint(r)
					}
				}()
				back := genbank.Parse(text)
				px, pb := projectGb(x), projectGb(back)
				locsok := len(x.Features) == len(back.Features)
				for fi := range x.Features {
					if locsok && !reflect.DeepEqual(x.Features[fi].SequenceLocation, back.Features[fi].SequenceLocation) {
						locsok = false
					}
				}
				if mode == 2 { // no cached location text: the text in the file is whatever the writer derives from the structure
					for fi := range px.Feats {
						px.Feats[fi].Loc = genbank.BuildLocationString(x.Features[fi].SequenceLocation)
					}
				}
				ev["x"], ev["reparsed"], ev["deterministic"], ev["locsok"], ev["panic"] = px, pb, det, locsok, ""
				ev["lines"] = strings.Split(strings.TrimSuffix(string(text), "\n"), "\n")
			}()
		}
		if ev["panic"] != "" {
			ev["x"], ev["reparsed"], ev["deterministic"], ev["locsok"], ev["lines"] = gbRec{}.canon(), gbRec{}.canon(), true, true, []string{}
		}
		emit(ev)
	})
	if len(c03Pending) >= 3 {
		c03Flush()
	}
}

func c03Record(tier string, seed int64, emit func(interface{})) {
	rng := rand.New(rand.NewSource(seed))
	gbLongTokens = true
	// S->I part: every (record, layout) the specification enumerated in C01_MC, as parsed image and as assembled structure
	if path := os.Getenv("C03_CASES"); path != "" {
		f, err := os.Open(path)
		if err != nil {
			fatal("C03 cases: %v", err)
		}
		sc := bufio.NewScanner(f)
		sc.Buffer(make([]byte, 1<<20), 1<<26)
		n := 0
		for sc.Scan() {
			raw, err := unwrap(sc.Bytes())
			if err != nil {
				fatal("C03 case line: %v", err)
			}
			var cs struct {
				Lines    []string
				Expected gbRec
			}
			if err := json.Unmarshal(raw, &cs); err != nil {
				fatal("C03 case: %v", err)
			}
			n++
			c03One(genbank.Parse([]byte(strings.Join(cs.Lines, "\n")+"\n")), 0, n%5 == 0, emit)
			if n%4 == 0 { // the abstract record is the same for all layouts of one record
				c03One(assemble(cs.Expected, true), 1, false, emit)
				c03One(assemble(cs.Expected, false), 2, false, emit)
			}
		}
		f.Close()
	}
	n, maxSeq, maxFeats := 40, 2500, 12
	if tier == "thorough" {
		n, maxSeq, maxFeats = 400, 100000, 40
	}
	sweep := 0
	locusSweep(func() { // every division x molecule type, as parsed image and as assembled structure in turn
		lines, want := genGbRecord(rng, 130, 2)
		sweep++
		switch sweep % 9 { // fields a record assembled in code may leave unset
		case 1:
			want.Source = ""
		case 3:
			want.Others = append(want.Others, [2]string{"PROJECT", ""})
		}
		if sweep%2 == 0 {
			c03One(genbank.Parse([]byte(strings.Join(lines, "\n")+"\n")), 0, false, emit)
		} else {
			c03One(assemble(want, sweep%4 == 1), 1+sweep%4/2, false, emit)
		}
	})
	for i := 0; i < n; i++ {
		ms := 2000
		if i%5 == 0 {
			ms = maxSeq
		}
		lines, want := genGbRecord(rng, ms, maxFeats)
		// long metadata (forces line wrapping in the writer)
		if rng.Intn(3) == 0 {
			want.Definition = strings.Join(wordsN(rng, 40+rng.Intn(260), ",.;:()-"), " ")
		}
		var x poly.Sequence
		mode := rng.Intn(3)
		switch mode {
		case 0: // the image of the parser over a generated file
			x = genbank.Parse([]byte(strings.Join(lines, "\n") + "\n"))
		case 1, 2:
			// records assembled in code leave fields unset that a file always carries: no SOURCE text although the
			// organism is known, an extra keyword block without text
			switch rng.Intn(6) {
			case 0:
				want.Source = ""
			case 1:
				want.Others = append(want.Others, [2]string{"PROJECT", ""})
			}
			x = assemble(want, mode == 1)
		}
		c03One(x, mode, rng.Intn(4) == 0, emit)
	}
	c03Flush()
}

func init() {
	registry["C03"] = &Prop{Record: c03Record}
}
