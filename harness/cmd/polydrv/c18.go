package main

import (
	"encoding/json"
	"fmt"
	"math"
	"math/rand"
	"strings"

	"github.com/TimothyStiles/poly/transform/codon"
)

// tableWithWeights builds, through the public API only, an independent table of
// genetic code id whose weights are w: re-weight a default table with a coding
// sequence holding each codon w[c] times, then pass it through JSON so that it
// shares nothing with the default tables (this sidesteps known finding KF-C08-1).
func tableWithWeights(id int, w func(c string) int) (codon.Table, string) {
	var b strings.Builder
	for _, c := range allCodons {
		for i := 0; i < w(c); i++ {
			b.WriteString(c)
		}
	}
	t := roundtrip(codon.GetCodonTable(id).OptimizeTable(b.String()), false)
	got, _, perr := projectTable(t)
	if perr != "" {
		return t, perr
	}
	for _, c := range allCodons {
		if got[c] != w(c) {
			return t, fmt.Sprintf("could not build operand: weight of %s is %d, wanted %d", c, got[c], w(c))
		}
	}
	return t, ""
}

func c18Replay(c json.RawMessage) Verdict {
	var cs struct {
		Id, Cut, Eps      int
		Wa, Wb, Add, Comp sparse
		Err               bool
	}
	if err := json.Unmarshal(c, &cs); err != nil {
		fatal("C18 case: %v", err)
	}
	ta, e1 := tableWithWeights(cs.Id, cs.Wa.at)
	tb, e2 := tableWithWeights(cs.Id, cs.Wb.at)
	if e1 != "" || e2 != "" {
		return bad("operands: %s %s", e1, e2)
	}
	// the second operand lists its amino acids and codons in another order (a table from another tool, a shuffled
	// JSON): a table is a set of weighted codons, not a layout
	if cs.Id%2 == 0 || cs.Cut%3 == 0 {
		tb = shuffleTable(tb, int64(cs.Id*131+cs.Cut))
	}
	sum := codon.AddCodonTable(ta, tb)
	ws, _, perr := projectTable(sum)
	if perr != "" || !matches(ws, cs.Add, 0) {
		return bad("AddCodonTable: result is not the pointwise sum (%s)", perr)
	}
	if e := sameShape(sum, ta); e != "" {
		return bad("AddCodonTable: %s", e)
	}
	cut := float64(cs.Cut) / 10000
	if cs.Eps != 0 {
		// a hair off the grid value, in three magnitudes: every one of them must get the same answer
		for _, d := range []float64{5e-5, 1e-9} {
			if msg := c18Hair(ta, tb, cut+float64(cs.Eps)*d, cs.Err, cs.Comp); msg != "" {
				return bad("%s", msg)
			}
		}
		cut = math.Nextafter(cut, float64(cs.Eps)*2)
	}
	ab, err := codon.CompromiseCodonTable(ta, tb, cut)
	if cs.Err {
		if err == nil {
			return bad("CompromiseCodonTable accepted cut-off %v outside 0..1", cut)
		}
		return ok(true)
	}
	if err != nil {
		return bad("CompromiseCodonTable rejected cut-off %v: %v", cut, err)
	}
	wab, _, perr := projectTable(ab)
	if perr != "" || !matches(wab, cs.Comp, 1) {
		return bad("CompromiseCodonTable(cut %v): weights differ from the specification by more than 1 (%s): %v", cut, perr, diffCells(wab, cs.Comp, 1))
	}
	if e := sameShape(ab, ta); e != "" {
		return bad("CompromiseCodonTable: %s", e)
	}
	ba, err := codon.CompromiseCodonTable(tb, ta, cut)
	if err != nil {
		return bad("CompromiseCodonTable(b,a) error %v", err)
	}
	wba, _, _ := projectTable(ba)
	for _, cd := range allCodons {
		if wab[cd] != wba[cd] {
			return bad("CompromiseCodonTable is not symmetric at %s: %d vs %d", cd, wab[cd], wba[cd])
		}
	}
	return ok(true)
}

// c18Hair: one more cut-off with the same specified outcome
func c18Hair(ta, tb codon.Table, cut float64, wantErr bool, nom sparse) string {
	ab, err := codon.CompromiseCodonTable(ta, tb, cut)
	if wantErr != (err != nil) {
		if wantErr {
			return fmt.Sprintf("CompromiseCodonTable accepted cut-off %v outside 0..1", cut)
		}
		return fmt.Sprintf("CompromiseCodonTable rejected cut-off %v: %v", cut, err)
	}
	if err == nil {
		w, _, perr := projectTable(ab)
		if perr != "" || !matches(w, nom, 1) {
			return fmt.Sprintf("CompromiseCodonTable(cut %v): weights differ from the specification by more than 1 (%s): %v", cut, perr, diffCells(w, nom, 1))
		}
	}
	return ""
}

// shuffleTable: a deep copy of t with the amino acids and, inside each, the codons in another order
func shuffleTable(t codon.Table, seed int64) codon.Table {
	rng := rand.New(rand.NewSource(seed))
	out := codon.Table{StartCodons: append([]string(nil), t.StartCodons...), StopCodons: append([]string(nil), t.StopCodons...)}
	for _, i := range rng.Perm(len(t.AminoAcids)) {
		aa := t.AminoAcids[i]
		n := codon.AminoAcid{Letter: aa.Letter}
		for _, j := range rng.Perm(len(aa.Codons)) {
			n.Codons = append(n.Codons, aa.Codons[j])
		}
		out.AminoAcids = append(out.AminoAcids, n)
	}
	return out
}

func diffCells(obs map[string]int, nom sparse, tol int) []string {
	var out []string
	for _, c := range allCodons {
		n := nom.at(c)
		if n != -1 && (obs[c]-n < -tol || obs[c]-n > tol) && len(out) < 6 {
			out = append(out, fmt.Sprintf("%s: got %d spec %d", c, obs[c], n))
		}
	}
	return out
}

// sameShape: codon -> amino-acid assignment and start/stop codons equal those of ref
func sameShape(t, ref codon.Table) string {
	_, lt, p1 := projectTable(t)
	_, lr, _ := projectTable(ref)
	if p1 != "" {
		return p1
	}
	for _, c := range allCodons {
		if lt[c] != lr[c] {
			return "codon " + c + " changed its amino acid"
		}
	}
	a, _ := sortedSet(t.StartCodons)
	b, _ := sortedSet(ref.StartCodons)
	x, _ := sortedSet(t.StopCodons)
	y, _ := sortedSet(ref.StopCodons)
	if strings.Join(a, ",") != strings.Join(b, ",") || strings.Join(x, ",") != strings.Join(y, ",") {
		return "start/stop codons changed"
	}
	return ""
}

func c18Record(tier string, seed int64, emit func(interface{})) {
	rng := rand.New(rand.NewSource(seed))
	n, maxSeq := 40, 20000
	if tier == "thorough" {
		n, maxSeq = 400, 100000
	}
	for i := 0; i < n; i++ {
		id := tableIds[rng.Intn(len(tableIds))]
		mk := func() codon.Table {
			m := 192 + rng.Intn(maxSeq)
			if rng.Intn(2) == 0 {
				m = 192 + rng.Intn(600)
			}
			return roundtrip(codon.GetCodonTable(id).OptimizeTable(randCoding(rng, m, true)), false)
		}
		ta, tb := mk(), mk()
		if sib := c18Siblings(id); len(sib) > 0 && rng.Intn(4) == 0 {
			// the second organism's table carries another NCBI number with the SAME codon assignment (1 and 11:
			// only the start codons differ): start and stop codons are the first table's
			id2 := sib[rng.Intn(len(sib))]
			tb = roundtrip(codon.GetCodonTable(id2).OptimizeTable(randCoding(rng, 192+rng.Intn(600), true)), false)
		}
		designedStops := i == 0 || (tier == "thorough" && i%40 == 0)
		if designedStops { // each organism ends its genes with another stop codon: every stop codon is rare in one of them
			id = []int{1, 11}[rng.Intn(2)]
			every := strings.Join(allCodons, "")
			ta = roundtrip(codon.GetCodonTable(id).OptimizeTable(every+strings.Repeat("TAG", 10)), false)
			tb = roundtrip(codon.GetCodonTable(id).OptimizeTable(every+strings.Repeat("TGA", 10)), false)
		}
		switch rng.Intn(4) {
		case 0:
			tb = shuffleTable(tb, rng.Int63())
		case 1:
			ta = shuffleTable(ta, rng.Int63())
		}
		wa, _, _ := projectTable(ta)
		wb, _, _ := projectTable(tb)
		cut := []int{-10000, -1, 0, 0, 1, 250, 500, 1000, 1000, 1500, 2500, 5000, 10000, 10001, 20000}[rng.Intn(15)]
		if rng.Intn(3) == 0 { // at / next to a realised usage share
			c := allCodons[rng.Intn(64)]
			tot := 0
			_, letter, _ := projectTable(ta)
			for _, d := range allCodons {
				if letter[d] == letter[c] {
					tot += wa[d]
				}
			}
			if tot > 0 {
				cut = 10000*wa[c]/tot + rng.Intn(3) - 1
			}
		}
		if designedStops {
			cut = 2500
		}
		eps, fcut := 0, float64(cut)/10000
		if !designedStops && rng.Intn(4) == 0 { // a hair off the grid value; often at the ends of the interval
			eps = 2*rng.Intn(2) - 1
			if rng.Intn(2) == 0 {
				cut = 10000 * rng.Intn(2)
			}
			fcut = float64(cut) / 10000
			switch rng.Intn(3) {
			case 0:
				fcut += float64(eps) * 5e-5
			case 1:
				fcut += float64(eps) * 1e-9
			default:
				fcut = math.Nextafter(fcut, float64(eps)*2)
			}
		}
		ev := map[string]interface{}{"k": "combine", "id": id, "wa": toSparse(wa), "wb": toSparse(wb), "cut": cut, "eps": eps}
		sum := codon.AddCodonTable(ta, tb)
		ws, ls, _ := projectTable(sum)
		ev["add"], ev["addletters"], ev["addstarts"], ev["addstops"] = toSparse(ws), lettersString(ls), nz(sum.StartCodons), nz(sum.StopCodons)
		ab, err := codon.CompromiseCodonTable(ta, tb, fcut)
		ev["err"] = err != nil
		if err == nil {
			ba, _ := codon.CompromiseCodonTable(tb, ta, fcut)
			wab, lab, _ := projectTable(ab)
			wba, _, _ := projectTable(ba)
			ev["comp"], ev["compba"] = toSparse(wab), toSparse(wba)
			ev["completters"], ev["compstarts"], ev["compstops"] = lettersString(lab), nz(ab.StartCodons), nz(ab.StopCodons)
		} else {
			ev["comp"], ev["compba"] = toSparse(map[string]int{}), toSparse(map[string]int{})
			ev["completters"], ev["compstarts"], ev["compstops"] = "", []string{}, []string{}
		}
		emit(ev)
		if err == nil && cut >= 0 {
			// a gene optimised with the compromise table
			_, letter, _ := projectTable(ab)
			wab, _, _ := projectTable(ab)
			letters := encodableLetters(letter, wab)
			if len(letters) > 0 {
				p := make([]byte, 1+rng.Intn(300))
				for j := range p {
					p[j] = letters[rng.Intn(len(letters))]
				}
				dna, oerr := safeOptimize(string(p), ab)
				if oerr == "" {
					emit(map[string]interface{}{"k": "opt", "id": id, "wa": toSparse(wa), "wb": toSparse(wb), "cut": cut,
						"comp": toSparse(wab), "protein": string(p), "dna": dna})
				}
				// the same with residues the compromise table cannot encode any more (all their codons were cut), the
				// stop signal among them: either an error, or - if DNA comes back - it is judged like any other gene
				seen := map[string]bool{}
				var all []byte
				for _, cd := range allCodons {
					if l := letter[cd]; l != "" && !seen[l] {
						seen[l] = true
						all = append(all, l[0])
					}
				}
				for _, extra := range all {
					q := string(letters[:1]) + string(extra)
					if dna, oerr := safeOptimize(q, ab); oerr == "" {
						emit(map[string]interface{}{"k": "opt", "id": id, "wa": toSparse(wa), "wb": toSparse(wb), "cut": cut,
							"comp": toSparse(wab), "protein": q, "dna": dna})
					}
				}
			}
		}
	}
}

func nz(x []string) []string {
	if x == nil {
		return []string{}
	}
	return x
}

// letters that have at least one codon with share > 10 % and weight > 0 (so Optimize must succeed)
func encodableLetters(letter map[string]string, w map[string]int) []byte {
	tot := map[string]int{}
	for _, c := range allCodons {
		tot[letter[c]] += w[c]
	}
	seen := map[string]bool{}
	var out []byte
	for _, c := range allCodons {
		l := letter[c]
		if !seen[l] && w[c] > 0 && 10*w[c] > tot[l] && len(l) == 1 {
			seen[l] = true
			out = append(out, l[0])
		}
	}
	return out
}

// safeOptimize: codon.Optimize with a panic turned into a string
func safeOptimize(p string, t codon.Table) (dna string, errs string) {
	defer func() {
		if r := recover(); r != nil {
			errs = fmt.Sprintf("panic: %v", r)
		}
	}()
	d, err := codon.Optimize(p, t)
	if err != nil {
		return "", "error: " + err.Error()
	}
	return d, ""
}

// c18Siblings: the other default tables with the same codon-to-amino-acid assignment as table id
func c18Siblings(id int) (out []int) {
	_, mine, _ := projectTable(codon.GetCodonTable(id))
	for _, j := range tableIds {
		if j == id {
			continue
		}
		_, theirs, _ := projectTable(codon.GetCodonTable(j))
		same := len(mine) == len(theirs)
		for c, l := range mine {
			if theirs[c] != l {
				same = false
			}
		}
		if same {
			out = append(out, j)
		}
	}
	return out
}

func init() {
	registry["C18"] = &Prop{Replay: c18Replay, Record: c18Record, Serial: true}
}
