package main

import (
	"fmt"
	"os"
	"os/exec"
)

func main() {
	os.WriteFile("/verif/.work/dbg.in", []byte(`{"m":2,"pool":[{"f":1,"r":1,"b":1},{"f":1,"r":2,"b":2}],"rings":[[{"i":1,"d":false}],[{"i":1,"d":true}]],"molecules":1,"diverges":false}`+"\n"), 0644)
	os.Remove("/verif/.work/dbg.out")
	c := exec.Command("/verif/.work/polydrv", "child", "C09", "/verif/.work/dbg.in", "/verif/.work/dbg.out", "0", "2", "1", "3000")
	o, err := c.CombinedOutput()
	fmt.Println(string(o), err)
	b, _ := os.ReadFile("/verif/.work/dbg.out")
	fmt.Println(string(b))
}
