// Package blake3ref is a from-scratch transcription of the BLAKE3 reference
// implementation (hash mode, 32-byte output). It shares no code with the
// lukechampine.com/blake3 module that poly links; it is pinned by the official
// test vectors in blake3ref_test.go and self-checked at start-up by polydrv.
package blake3ref

import (
	"encoding/binary"
	"math/bits"
)

const (
	blockLen   = 64
	chunkLen   = 1024
	chunkStart = 1
	chunkEnd   = 2
	parent     = 4
	root       = 8
)

var iv = [8]uint32{0x6A09E667, 0xBB67AE85, 0x3C6EF372, 0xA54FF53A, 0x510E527F, 0x9B05688C, 0x1F83D9AB, 0x5BE0CD19}
var msgPermutation = [16]int{2, 6, 3, 10, 7, 0, 4, 13, 1, 11, 12, 5, 9, 14, 15, 8}

func g(s *[16]uint32, a, b, c, d int, mx, my uint32) {
	s[a] = s[a] + s[b] + mx
	s[d] = bits.RotateLeft32(s[d]^s[a], -16)
	s[c] = s[c] + s[d]
	s[b] = bits.RotateLeft32(s[b]^s[c], -12)
	s[a] = s[a] + s[b] + my
	s[d] = bits.RotateLeft32(s[d]^s[a], -8)
	s[c] = s[c] + s[d]
	s[b] = bits.RotateLeft32(s[b]^s[c], -7)
}

func round(s *[16]uint32, m *[16]uint32) {
	g(s, 0, 4, 8, 12, m[0], m[1])
	g(s, 1, 5, 9, 13, m[2], m[3])
	g(s, 2, 6, 10, 14, m[4], m[5])
	g(s, 3, 7, 11, 15, m[6], m[7])
	g(s, 0, 5, 10, 15, m[8], m[9])
	g(s, 1, 6, 11, 12, m[10], m[11])
	g(s, 2, 7, 8, 13, m[12], m[13])
	g(s, 3, 4, 9, 14, m[14], m[15])
}

func permute(m *[16]uint32) {
	var p [16]uint32
	for i := range p {
		p[i] = m[msgPermutation[i]]
	}
	*m = p
}

func compress(cv [8]uint32, blockWords [16]uint32, counter uint64, bl uint32, flags uint32) [16]uint32 {
	s := [16]uint32{cv[0], cv[1], cv[2], cv[3], cv[4], cv[5], cv[6], cv[7],
		iv[0], iv[1], iv[2], iv[3], uint32(counter), uint32(counter >> 32), bl, flags}
	m := blockWords
	for r := 0; r < 7; r++ {
		round(&s, &m)
		if r < 6 {
			permute(&m)
		}
	}
	for i := 0; i < 8; i++ {
		s[i] ^= s[i+8]
		s[i+8] ^= cv[i]
	}
	return s
}

type output struct {
	inputCV    [8]uint32
	blockWords [16]uint32
	counter    uint64
	blockLen   uint32
	flags      uint32
}

func (o output) chainingValue() [8]uint32 {
	s := compress(o.inputCV, o.blockWords, o.counter, o.blockLen, o.flags)
	var cv [8]uint32
	copy(cv[:], s[:8])
	return cv
}

func (o output) rootBytes32() [32]byte {
	s := compress(o.inputCV, o.blockWords, 0, o.blockLen, o.flags|root)
	var out [32]byte
	for i := 0; i < 8; i++ {
		binary.LittleEndian.PutUint32(out[4*i:], s[i])
	}
	return out
}

func words(block *[blockLen]byte) [16]uint32 {
	var w [16]uint32
	for i := range w {
		w[i] = binary.LittleEndian.Uint32(block[4*i:])
	}
	return w
}

type chunkState struct {
	cv               [8]uint32
	chunkCounter     uint64
	block            [blockLen]byte
	blockLen         int
	blocksCompressed int
}

func (c *chunkState) len() int { return blockLen*c.blocksCompressed + c.blockLen }
func (c *chunkState) startFlag() uint32 {
	if c.blocksCompressed == 0 {
		return chunkStart
	}
	return 0
}
func (c *chunkState) update(in []byte) {
	for len(in) > 0 {
		if c.blockLen == blockLen {
			s := compress(c.cv, words(&c.block), c.chunkCounter, blockLen, c.startFlag())
			copy(c.cv[:], s[:8])
			c.blocksCompressed++
			c.block = [blockLen]byte{}
			c.blockLen = 0
		}
		n := copy(c.block[c.blockLen:], in)
		c.blockLen += n
		in = in[n:]
	}
}
func (c *chunkState) output() output {
	return output{c.cv, words(&c.block), c.chunkCounter, uint32(c.blockLen), c.startFlag() | chunkEnd}
}

func parentOutput(l, r [8]uint32) output {
	var bw [16]uint32
	copy(bw[:8], l[:])
	copy(bw[8:], r[:])
	return output{iv, bw, 0, blockLen, parent}
}

// Sum256 returns the BLAKE3-256 digest of data.
func Sum256(data []byte) [32]byte {
	cs := chunkState{cv: iv}
	var stack [][8]uint32
	in := data
	for len(in) > 0 {
		if cs.len() == chunkLen {
			cv := cs.output().chainingValue()
			total := cs.chunkCounter + 1
			for total&1 == 0 {
				top := stack[len(stack)-1]
				stack = stack[:len(stack)-1]
				cv = parentOutput(top, cv).chainingValue()
				total >>= 1
			}
			stack = append(stack, cv)
			cs = chunkState{cv: iv, chunkCounter: cs.chunkCounter + 1}
		}
		want := chunkLen - cs.len()
		if want > len(in) {
			want = len(in)
		}
		cs.update(in[:want])
		in = in[want:]
	}
	out := cs.output()
	for i := len(stack) - 1; i >= 0; i-- {
		out = parentOutput(stack[i], out.chainingValue())
	}
	return out.rootBytes32()
}
