package blake3ref

import (
	"encoding/hex"
	"testing"

	lib "lukechampine.com/blake3"
)

func TestOfficialVectors(t *testing.T) {
	for in, want := range map[string]string{
		"":    "af1349b9f5f9a1a6a0404dea36dcc9499bcb25c9adc112b7cc9a93cae41f3262",
		"abc": "6437b3ac38465133ffb63b75273a8db548c558465d79db03fd359c6cd5bd9d85",
	} {
		got := Sum256([]byte(in))
		if hex.EncodeToString(got[:]) != want {
			t.Fatalf("Sum256(%q) = %x", in, got)
		}
	}
}

// multi-chunk tree shapes: agreement with the library is a self-test of this
// transcription (the official vectors above pin the compression function).
func TestTreeShapes(t *testing.T) {
	for _, n := range []int{1, 63, 64, 65, 1023, 1024, 1025, 2048, 2049, 3072, 3073, 4096, 4097, 5120, 7169, 8192, 8193, 31744, 102400, 100001} {
		b := make([]byte, n)
		for i := range b {
			b[i] = byte(i % 251)
		}
		if Sum256(b) != lib.Sum256(b) {
			t.Fatalf("length %d differs", n)
		}
	}
}
