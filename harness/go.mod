module polyverif

go 1.16

require (
	github.com/TimothyStiles/poly v0.0.0
	lukechampine.com/blake3 v1.0.0
)

replace github.com/TimothyStiles/poly => /repo
